#!/bin/bash
# offline setup: make sure hypothesis is importable from /venv; atheris (optional, thorough
# tiers of the byte-level decoders) goes to /verif/.deps
here="$(cd "$(dirname "${BASH_SOURCE[0]}")" && pwd)"
cd "$here" || exit 2
export PIP_NO_INDEX=1 PIP_DISABLE_PIP_VERSION_CHECK=1
if ! /venv/bin/python -c "import hypothesis" 2>/dev/null; then
  /venv/bin/pip install --no-index --find-links /opt/veriftools/wheels hypothesis || exit 2
fi
if ! PYTHONPATH="$here/.deps" /venv/bin/python -c "import atheris" 2>/dev/null; then
  /venv/bin/pip install --no-index --find-links /opt/veriftools/wheels --target "$here/.deps" atheris >/dev/null 2>&1 \
    || echo "atheris not installable: byte-level fuzz parts will be skipped (stated in evidence)"
fi
/venv/bin/python -c "import hypothesis; print('hypothesis', hypothesis.__version__)"
PYTHONPATH="$here/.deps" /venv/bin/python -c "import atheris; print('atheris ok')" 2>/dev/null || true
exit 0
