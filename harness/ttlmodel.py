"""Reference model for TTL-governed records (found services, subscriptions, TimedStore entries).

The model predicts, per (address, key) pair, the sequence of listener calls: a call that reports the record
as new ('new' / 'subscribed' / 'rejected') and a call that reports its end ('expired').  At every idle point the
events of the last group of steps are explained against the calls recorded since, pair by pair, in order.  Where the
statement allows two outcomes (a refresh closer than RES to the deadline: 'expired, then present again' or 'no
notification'; a Subscribe the listener may not have been asked about) both are tried (small DFS).

events:
  ("add", pair, new_deadline_or_None, arrival_time)
  ("end", selector, why)      selector(pair) -> bool ; every selected live pair ends now
"""
from __future__ import annotations

from .engine import Violation
from .vloop import RES


class TTLModel:
    def __init__(self, pid, new_kinds, optional_new, clauses=None):
        """new_kinds: dict kind -> bool (does this call make the record live?), e.g. {"new": True} or
        {"subscribed": True, "rejected": False}; optional_new: a fresh add may legitimately cause no call"""
        self.pid = pid
        self.new_kinds = new_kinds
        self.optional_new = optional_new
        self.live = {}
        self.plog = {}
        self.cursor = {}
        self.clauses = {"missing": f"{pid}.missing-notification", "time": f"{pid}.expiry-time",
                        "unexplained-expired": f"{pid}.unexplained-expiry", "unexplained-new": f"{pid}.unexplained-new"}
        self.clauses.update(clauses or {})

    def record(self, t, kind, pair):
        self.plog.setdefault(pair, []).append((t, kind))

    def calls(self, p):
        return [(round(t, 6), k) for t, k in self.plog.get(p, [])]

    # ------------------------------------------------------------------ DFS
    def explain(self, events, now):
        best = [(-1, None, None)]

        def fail(depth, clause, msg):
            if depth > best[0][0]:
                best[0] = (depth, clause, msg)
            return None

        def peek(cursor, p):
            lst = self.plog.get(p, ())
            c = cursor.get(p, 0)
            return lst[c] if c < len(lst) else (None, None)

        def take_end(live, cursor, p, why, depth, deadline=None):
            t, k = peek(cursor, p)
            if k != "expired":
                return fail(depth, self.clauses["missing"],
                            f"{p}: the record ended ({why}) by idle t={now:.6f} but the listener was not told; next unconsumed call {k!r}; calls {self.calls(p)}")
            if deadline is not None and abs(t - deadline) >= RES:
                return fail(depth, self.clauses["time"],
                            f"{p}: expiry reported at t={t:.7f}, deadline {deadline:.7f} (last add/refresh + ttl); calls {self.calls(p)}")
            live = dict(live)
            cursor = dict(cursor)
            del live[p]
            cursor[p] = cursor.get(p, 0) + 1
            return live, cursor

        def fresh(live, cursor, p, nd, depth):
            t, k = peek(cursor, p)
            if k in self.new_kinds:
                l2, c2 = dict(live), dict(cursor)
                c2[p] = c2.get(p, 0) + 1
                if self.new_kinds[k]:
                    l2[p] = nd
                yield l2, c2
            elif not self.optional_new:
                fail(depth, self.clauses["missing"], f"{p}: added at idle t={now:.6f} but no call reports it; next unconsumed call {k!r}; calls {self.calls(p)}")
            if self.optional_new:
                yield live, cursor

        def alternatives(ev, live, cursor, depth):
            if ev[0] == "add":
                _, p, nd, t = ev
                if p in live:
                    d = live[p]
                    if d is not None and abs(d - t) < RES:
                        r = take_end(live, cursor, p, "deadline simultaneous with the refresh", depth, d)
                        if r:
                            yield from fresh(r[0], r[1], p, nd, depth)
                    if d is not None and d - t <= -RES:
                        r = take_end(live, cursor, p, "TTL", depth, d)
                        if r:
                            yield from fresh(r[0], r[1], p, nd, depth)
                        return
                    l2 = dict(live)
                    l2[p] = nd
                    yield l2, cursor
                else:
                    yield from fresh(live, cursor, p, nd, depth)
            else:
                _, sel, why = ev
                for p in [p for p in live if sel(p)]:
                    r = take_end(live, cursor, p, why, depth)
                    if not r:
                        return
                    live, cursor = r
                yield live, cursor

        def finish(live, cursor, depth):
            for p, d in list(live.items()):
                if d is not None and d - now < 1.01 * RES:
                    borderline = d - now >= 0.99 * RES   # exactly one clock resolution away: rounding decides whether it fired
                    if borderline and peek(cursor, p)[1] != "expired":
                        continue
                    r = take_end(live, cursor, p, "TTL", depth, d)
                    if not r:
                        return None
                    live, cursor = r
            for p, lst in self.plog.items():
                c = cursor.get(p, 0)
                if c < len(lst):
                    t, kind = lst[c]
                    key = "unexplained-expired" if kind == "expired" else "unexplained-new"
                    return fail(depth, self.clauses[key],
                                f"{p}: call '{kind}' at t={t:.7f} has no cause in the history (model: {'live, deadline ' + str(live[p]) if p in live else 'not live'}) at idle t={now:.6f}; calls {self.calls(p)}")
            return live, cursor

        def solve(i, live, cursor):
            if i == len(events):
                return finish(live, cursor, i)
            for l2, c2 in alternatives(events[i], live, cursor, i):
                r = solve(i + 1, l2, c2)
                if r:
                    return r
            return None

        r = solve(0, self.live, self.cursor)
        if not r:
            _, clause, msg = best[0]
            raise Violation(clause or f"{self.pid}.model", msg or "no explanation")
        self.live, self.cursor = r
