"""Deterministic virtual-time asyncio loop (DESIGN.md 2.2).

The scheduling code is CPython's own (``BaseEventLoop._run_once``): only the
selector and the clock are replaced.  ``select(timeout)`` never waits; it moves the
virtual clock to the ``when`` of the earliest pending timer.  The harness drives the
loop one iteration at a time (``Sim.step``), so "idle point" is well defined:
nothing ready and no timer due at the current virtual instant.
"""
from __future__ import annotations

import asyncio
import contextlib
import asyncio.events
import gc
import selectors
import socket
import threading

RES = 1e-6  # clock resolution of the virtual loop, in virtual seconds
MAX_SELECT = 24 * 3600.0


class Deadlock(RuntimeError):
    pass


class _VSelector(selectors.SelectSelector):
    loop = None

    def select(self, timeout=None):
        loop = self.loop
        if timeout is None:
            raise Deadlock("virtual loop has nothing to do")
        if timeout > 0:
            sched = loop._scheduled
            if sched:
                target = sched[0]._when
                if target - loop._vtime > MAX_SELECT:
                    target = loop._vtime + MAX_SELECT
                if target > loop._vtime:
                    loop._vtime = target
            else:  # pragma: no cover
                loop._vtime += timeout
        return []


class VirtualLoop(asyncio.SelectorEventLoop):
    def __init__(self):
        sel = _VSelector()
        super().__init__(sel)
        sel.loop = self
        self._vtime = 0.0
        self._clock_resolution = RES
        self.errors = []
        self.tasks = []
        self.set_exception_handler(self._on_error)

    def _on_error(self, loop, context):
        exc = context.get("exception")
        self.errors.append(
            (self._vtime, type(exc).__name__ if exc else None, str(context.get("message")), repr(exc))
        )

    def time(self):
        return self._vtime

    def create_task(self, coro, **kw):
        t = super().create_task(coro, **kw)
        self.tasks.append(t)
        return t

    def task_errors(self):
        """exceptions of finished tasks (would otherwise only surface at GC time)"""
        out = []
        for t in self.tasks:
            if t.done() and not t.cancelled():
                exc = t.exception()
                if exc is not None:
                    out.append((type(exc).__name__, repr(exc)))
        return out

    async def getaddrinfo(self, host, port, *, family=0, type=0, proto=0, flags=0):
        # the library only resolves numeric addresses; do it without an executor thread (no real time), but keep
        # the suspension point the real loop has there: the caller resumes one iteration later, so other callbacks
        # (a subscribe, an unsubscribe, a stop) can run in between exactly as in production
        await asyncio.sleep(0)
        return socket.getaddrinfo(host, port, family, type, proto, flags)


class Sim:
    """Context manager that owns one VirtualLoop for one case."""

    _cases = 0

    def __init__(self):
        self.loop = VirtualLoop()
        self._entered = False
        self.idle_hooks = []
        self.driver_handles = []
        self.iterations = 0
        self.max_iterations = 2_000_000

    # -- context ---------------------------------------------------------
    def __enter__(self):
        loop = self.loop
        self._old_loop = None
        asyncio.set_event_loop(loop)
        loop._thread_id = threading.get_ident()
        asyncio.events._set_running_loop(loop)
        self._entered = True
        return self

    def __exit__(self, *exc):
        self.teardown()
        return False

    @contextlib.contextmanager
    def outside(self):
        """Construct library objects the way an application does before it starts its loop: no loop is running and
        the thread's current event loop is some other loop, which never runs.  Anything an object binds to at
        construction time is then bound to the wrong loop."""
        decoy = asyncio.new_event_loop()
        asyncio.events._set_running_loop(None)
        asyncio.set_event_loop(decoy)
        try:
            yield
        finally:
            asyncio.set_event_loop(self.loop)
            asyncio.events._set_running_loop(self.loop)
            decoy.close()

    # -- time / timers ---------------------------------------------------
    @property
    def now(self):
        return self.loop._vtime

    def pending_timers(self, exclude=()):
        """non-cancelled timer deadlines, sorted"""
        ex = set(id(h) for h in exclude)
        return sorted(
            h._when for h in self.loop._scheduled if not h._cancelled and id(h) not in ex
        )

    def next_timer(self):
        best = None
        for h in self.loop._scheduled:
            if not h._cancelled and (best is None or h._when < best):
                best = h._when
        return best

    def busy(self):
        if self.loop._ready:
            return True
        nt = self.next_timer()
        return nt is not None and nt < self.loop._vtime + RES

    def step(self):
        self.iterations += 1
        if self.iterations > self.max_iterations:
            raise Deadlock("iteration budget exhausted")
        self.loop._run_once()
        if self.idle_hooks and not self.busy():
            for h in self.idle_hooks:
                h()

    def settle(self):
        """run until idle without advancing virtual time"""
        while self.busy():
            self.step()

    def run_handle(self, handle):
        """run until the given driver handle (from call_at) has been executed, then settle"""
        done = handle[1]
        while not done[0]:
            self.step()
        if len(done) > 1:
            raise done[1]
        self.settle()

    def call_at(self, when, fn, *args):
        """schedule a driver callback as a timer, so that it interleaves with the library's own
        timers exactly like an external event would; returns (timer handle, done flag)"""
        done = [False]

        def _cb():
            try:
                fn(*args)
            except BaseException as exc:  # noqa: BLE001 - re-raised by run_handle, outside the loop
                done.append(exc)
            finally:
                done[0] = True

        if when < self.now:
            when = self.now
        h = self.loop.call_at(when, _cb)
        self.driver_handles.append(h)
        return (h, done)

    def do_at(self, when, fn, *args):
        h = self.call_at(when, fn, *args)
        self.run_handle(h)

    def advance(self, dt):
        self.do_at(self.now + dt, lambda: None)

    def run_until(self, when):
        self.do_at(when, lambda: None)

    # -- teardown --------------------------------------------------------
    def teardown(self):
        loop = self.loop
        if loop.is_closed():
            return
        try:
            for _ in range(50):
                tasks = [t for t in asyncio.all_tasks(loop) if not t.done()]
                if not tasks and not loop._ready:
                    break
                for t in tasks:
                    t.cancel()
                for _ in range(20):
                    if not loop._ready:
                        break
                    loop._run_once()
            for h in list(loop._scheduled):
                h.cancel()
            left = [t for t in asyncio.all_tasks(loop) if not t.done()]
        finally:
            asyncio.events._set_running_loop(None)
            loop._thread_id = None
            try:
                loop.close()
            finally:
                asyncio.set_event_loop(None)
        # the case's garbage is young: collect generations 0-1 every time (0.1 ms) and everything now and then
        # (a full collection costs ~9 ms with Hypothesis loaded and would dominate the run time)
        Sim._cases += 1
        gc.collect() if Sim._cases % 256 == 0 else gc.collect(1)
        if left:
            raise RuntimeError(f"tasks outlived the case: {left!r}")
