"""Hypothesis strategies producing plain-data descriptions (JSON-able) of options,
SD entries and SD messages."""
from __future__ import annotations

import ipaddress

from hypothesis import strategies as st

from . import wire

u8 = st.one_of(st.sampled_from([0, 1, 0x7F, 0x80, 0xFE, 0xFF]), st.integers(0, 0xFF))
u16 = st.one_of(st.sampled_from([0, 1, 0x7FFF, 0x8000, 0xFFFE, 0xFFFF]), st.integers(0, 0xFFFF))
u24 = st.one_of(st.sampled_from([0, 1, 2, 3, 0xFFFF, 0x10000, 0x10001, 0xFFFFFE, 0xFFFFFF]), st.integers(0, 0xFFFFFF))
u32 = st.one_of(st.sampled_from([0, 1, 0xFFFF, 0x10000, 0xFFFFFFFE, 0xFFFFFFFF]), st.integers(0, 0xFFFFFFFF))

_KEYCH = "".join(chr(c) for c in range(0x20, 0x7F) if chr(c) != "=")
_VALCH = "".join(chr(c) for c in range(0x20, 0x7F))
_ANYKEY = "".join(chr(c) for c in range(0x00, 0x80) if chr(c) != "=")
_ANYVAL = "".join(chr(c) for c in range(0x00, 0x80))


@st.composite
def cfg_item(draw):
    wide = draw(st.integers(0, 9)) == 0
    key = draw(st.text(_ANYKEY if wide else _KEYCH, min_size=1, max_size=12))
    kind = draw(st.sampled_from(["none", "empty", "val", "val", "eq", "long"]))
    if kind == "none":
        return [key, None]
    if kind == "empty":
        return [key, ""]
    if kind == "eq":
        return [key, draw(st.text(_VALCH, max_size=6)) + "=" + draw(st.text(_VALCH, max_size=6))]
    if kind == "long":
        total = draw(st.sampled_from([200, 254, 255]))  # length of "key=value" on the wire
        return [key, "x" * (total - len(key) - 1)]
    return [key, draw(st.text(_ANYVAL if wide else _VALCH, max_size=12))]


@st.composite
def option_desc(draw, kinds=("ip", "ip", "ip", "lb", "cfg", "cfg", "unk")):
    k = draw(st.sampled_from(kinds))
    if k == "ip":
        t = draw(st.sampled_from(wire.IP4_TYPES + wire.IP6_TYPES))
        if t in wire.IP4_TYPES:
            addr = str(ipaddress.IPv4Address(draw(st.one_of(st.sampled_from([0, 0x0A000002, 0xE0F4E0F5, 0xFFFFFFFF]), st.integers(0, 2**32 - 1)))))
        else:
            addr = str(ipaddress.IPv6Address(draw(st.one_of(st.sampled_from([0, 1, 2**128 - 1, 0x20010DB8 << 96]), st.integers(0, 2**128 - 1)))))
        proto = draw(st.one_of(st.sampled_from([6, 17, 17, 0, 1, 0xFF]), st.integers(0, 255)))
        return dict(k="ip", type=t, addr=addr, proto=proto, port=draw(u16))
    if k == "lb":
        return dict(k="lb", prio=draw(u16), weight=draw(u16))
    if k == "cfg":
        return dict(k="cfg", items=draw(st.lists(cfg_item(), max_size=4)))
    t = draw(st.integers(0, 255).filter(lambda x: x not in wire.KNOWN_OPTION_TYPES))
    return dict(k="unk", type=t, data=draw(st.binary(max_size=24)).hex())


def distinct_options(n_max):
    """list of semantically distinct option descriptions"""
    return st.lists(option_desc(), min_size=0, max_size=n_max, unique_by=lambda d: repr(sorted(d.items())))


@st.composite
def entry_fields(draw, etype=None):
    t = draw(st.sampled_from(wire.ENTRY_TYPES)) if etype is None else etype
    e = dict(type=t, service=draw(u16), instance=draw(u16), major=draw(u8), ttl=draw(u24))
    if t in (wire.FIND, wire.OFFER):
        e["minor"] = draw(u32)
    else:
        e["counter"] = draw(st.integers(0, 15))
        e["eventgroup"] = draw(u16)
    return e
