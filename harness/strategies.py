"""Hypothesis strategies producing plain-data descriptions (JSON-able) of options,
SD entries and SD messages."""
from __future__ import annotations

import ipaddress

from hypothesis import strategies as st

from . import wire

u8 = st.one_of(st.sampled_from([0, 1, 0x7F, 0x80, 0xFE, 0xFF]), st.integers(0, 0xFF))
u16 = st.one_of(st.sampled_from([0, 1, 0x7FFF, 0x8000, 0xFFFE, 0xFFFF]), st.integers(0, 0xFFFF))
u24 = st.one_of(st.sampled_from([0, 1, 2, 3, 0xFFFF, 0x10000, 0x10001, 0xFFFFFE, 0xFFFFFF]), st.integers(0, 0xFFFFFF))
u32 = st.one_of(st.sampled_from([0, 1, 0xFFFF, 0x10000, 0xFFFFFFFE, 0xFFFFFFFF]), st.integers(0, 0xFFFFFFFF))

_KEYCH = "".join(chr(c) for c in range(0x20, 0x7F) if chr(c) != "=")
_VALCH = "".join(chr(c) for c in range(0x20, 0x7F))
_ANYKEY = "".join(chr(c) for c in range(0x00, 0x80) if chr(c) != "=")
_ANYVAL = "".join(chr(c) for c in range(0x00, 0x80))


@st.composite
def cfg_item(draw, nokey=False):
    wide = draw(st.integers(0, 9)) == 0
    key = draw(st.text(_ANYKEY if wide else _KEYCH, min_size=1, max_size=12))
    kind = draw(st.sampled_from(["none", "empty", "val", "val", "eq", "long", "len", "nokey" if nokey else "len"]))
    if kind == "len":
        # every string length the one-byte prefix can express is equally likely (the prefix byte takes every value,
        # the ASCII codes of '=' and of the printable range included), as a bare key or as key=value
        total = draw(st.integers(1, 255))
        if draw(st.booleans()):
            return ["k" * total, None]
        klen = draw(st.integers(0, min(total - 1, 12)))
        return ["k" * klen, "v" * (total - klen - 1)]
    if kind == "nokey":
        # a string that starts with '=': empty key, the rest is the value
        return ["", draw(st.text(_VALCH, max_size=6))]
    if kind == "none":
        return [key, None]
    if kind == "empty":
        return [key, ""]
    if kind == "eq":
        return [key, draw(st.text(_VALCH, max_size=6)) + "=" + draw(st.text(_VALCH, max_size=6))]
    if kind == "long":
        total = draw(st.sampled_from([200, 254, 255]))  # length of "key=value" on the wire
        return [key, "x" * (total - len(key) - 1)]
    return [key, draw(st.text(_ANYVAL if wide else _VALCH, max_size=12))]


@st.composite
def option_desc(draw, kinds=("ip", "ip", "ip", "lb", "cfg", "cfg", "unk"), nokey=False):
    k = draw(st.sampled_from(kinds))
    if k == "ip":
        t = draw(st.sampled_from(wire.IP4_TYPES + wire.IP6_TYPES))
        if t in wire.IP4_TYPES:
            addr = str(ipaddress.IPv4Address(draw(st.one_of(st.sampled_from([0, 0x0A000002, 0xE0F4E0F5, 0xFFFFFFFF, 0x7F000001, 0xA9FE0001, 0xE0000001]), st.integers(0, 2**32 - 1)))))
        else:
            # besides arbitrary ones, addresses of the ranges the address classes treat specially: unspecified, loopback,
            # IPv4-mapped and IPv4-compatible, 6to4, link-local, multicast
            special = [0, 1, 2**128 - 1, 0x20010DB8 << 96, (0xFFFF << 32) | 0xC0000211, (0xFFFF << 32) | 0x0A000002, 0xC0000211, (0x2002 << 112) | (0xC0000211 << 80),
                       (0xFE80 << 112) | 1, (0xFF02 << 112) | 0x10005, (0x64FF9B << 104) | 0xC0000211]
            addr = str(ipaddress.IPv6Address(draw(st.one_of(st.sampled_from(special), st.integers(0, 2**128 - 1)))))
        proto = draw(st.one_of(st.sampled_from([6, 17, 17, 0, 1, 0xFF]), st.integers(0, 255)))
        return dict(k="ip", type=t, addr=addr, proto=proto, port=draw(u16))
    if k == "lb":
        return dict(k="lb", prio=draw(u16), weight=draw(u16))
    if k == "cfg":
        return dict(k="cfg", items=draw(st.lists(cfg_item(nokey), max_size=4)))
    t = draw(st.integers(0, 255).filter(lambda x: x not in wire.KNOWN_OPTION_TYPES))
    return dict(k="unk", type=t, data=draw(st.binary(max_size=24)).hex())


def distinct_options(n_max):
    """list of semantically distinct option descriptions"""
    return st.lists(option_desc(), min_size=0, max_size=n_max, unique_by=lambda d: repr(sorted(d.items())))


@st.composite
def entry_fields(draw, etype=None):
    t = draw(st.sampled_from(wire.ENTRY_TYPES)) if etype is None else etype
    e = dict(type=t, service=draw(u16), instance=draw(u16), major=draw(u8), ttl=draw(u24))
    if t in (wire.FIND, wire.OFFER):
        e["minor"] = draw(u32)
    else:
        e["counter"] = draw(st.integers(0, 15))
        e["eventgroup"] = draw(u16)
    return e


# --------------------------------------------------------------------------- raw SD messages
@st.composite
def raw_option(draw, noncanon=True):
    """an option as it appears on the wire, possibly legal-but-non-canonical or of an arbitrary type"""
    how = draw(st.sampled_from(["desc", "desc", "desc", "noncanon", "anytype"])) if noncanon else "desc"
    if how == "anytype":
        return {"raw": {"type": draw(st.integers(0, 255)), "data": draw(st.binary(max_size=26)).hex()}}
    o = {"desc": draw(option_desc(nokey=True))}   # on the wire a configuration string may start with '=' (empty key)
    if how == "noncanon":
        o["reserved"] = draw(st.sampled_from([0, 1, 0x80, 0xFF]))
        o["reserved2"] = draw(st.sampled_from([0, 1, 0xFF]))
        if o["desc"]["k"] == "cfg":
            o["cfg_tail"] = draw(st.binary(max_size=5)).hex()
    return o


def raw_option_bytes(o):
    if "raw" in o:
        data = bytes.fromhex(o["raw"]["data"])
        return len(data).to_bytes(2, "big") + bytes([o["raw"]["type"] & 0xFF]) + data
    d = o["desc"]
    if d["k"] == "unk":
        return wire.encode_option(d)
    return wire.encode_option(d, reserved=o.get("reserved", 0), reserved2=o.get("reserved2", 0),
                              cfg_tail=bytes.fromhex(o.get("cfg_tail", "")))


@st.composite
def raw_sd(draw, noncanon=True, max_entries=5, max_options=6):
    """plain-data description of an SD payload: flags, reserved bytes, raw options, entries with raw index/count fields"""
    options = draw(st.lists(raw_option(noncanon), max_size=max_options))
    n = len(options)
    entries = []
    for _ in range(draw(st.integers(0, max_entries))):
        e = draw(entry_fields())
        for i, c in (("idx1", "n1"), ("idx2", "n2")):
            cnt = draw(st.integers(0, min(n, 15))) if draw(st.booleans()) else 0
            e[c] = cnt
            # an index so that index+count stays inside the array (zero counts with arbitrary in-range index included)
            e[i] = draw(st.integers(0, n - cnt))
        if noncanon and draw(st.integers(0, 15)) == 0:
            e["idx1"] = draw(st.integers(0, 255))  # possibly out of range: must then be rejected
        entries.append(e)
    flags = draw(st.sampled_from([0xC0, 0xC0, 0x80, 0x40, 0x00, 0xFF, 0xC1, 0xE0, 0x3F])) if noncanon else draw(st.sampled_from([0xC0, 0x40]))
    d = {"flags": flags, "options": options, "entries": entries}
    if noncanon:
        d["reserved"] = draw(st.sampled_from(["000000", "000000", "010203", "ffffff"]))
        d["tail"] = draw(st.sampled_from(["", "", "", "00", "deadbeef"]))
    return d


def raw_sd_bytes(d):
    """-> (payload bytes, list of (offset, width, kind) of every length / count / index / type field)"""
    fields = []
    ebuf = b""
    for n, e in enumerate(d["entries"]):
        base = 8 + 16 * n
        fields += [(base, 1, "etype"), (base + 1, 1, "idx"), (base + 2, 1, "idx"), (base + 3, 1, "counts"), (base + 12, 2, "res12")]
        ebuf += wire.encode_entry(e)
    obuf = b""
    ostart = 8 + len(ebuf) + 4
    for o in d["options"]:
        ob = raw_option_bytes(o)
        off = ostart + len(obuf)
        fields += [(off, 2, "olen"), (off + 2, 1, "otype")]
        if len(ob) > 4:
            fields.append((off + 4, 1, "obody"))
        if o.get("desc", {}).get("k") == "cfg":
            # string length bytes and one byte inside each string
            pos = off + 4
            for key, val in o["desc"]["items"]:
                ln = len(key) + (0 if val is None else 1 + len(val))
                fields += [(pos, 1, "cfglen"), (pos + 1, 1, "cfgchar")]
                pos += 1 + ln
        obuf += ob
    fields += [(4, 4, "elen"), (8 + len(ebuf), 4, "olen4"), (0, 1, "flags")]
    payload = wire.encode_sd(d["flags"], ebuf, obuf, reserved=bytes.fromhex(d.get("reserved", "000000")),
                             tail=bytes.fromhex(d.get("tail", "")))
    return payload, fields


mut_op = st.one_of(
    st.tuples(st.just("flip"), st.integers(0, 4095), st.integers(0, 7)),
    st.tuples(st.just("set"), st.integers(0, 4095), st.sampled_from([0, 1, 0x7F, 0x80, 0xFF, 0x10, 0x0F])),
    st.tuples(st.just("trunc"), st.integers(0, 4095)),
    st.tuples(st.just("insert"), st.integers(0, 4095), st.binary(min_size=1, max_size=6).map(bytes.hex)),
    st.tuples(st.just("dup"), st.integers(0, 4095), st.integers(1, 40)),
    st.tuples(st.just("field"), st.integers(0, 255), st.sampled_from([0, 1, 2, 3, 5, 15, 16, 17, 0x7F, 0x80, 0xFE, 0xFF, 0xFFFF, 0x10000, 0xFFFFFFFF])),
    st.tuples(st.just("field+"), st.integers(0, 255), st.sampled_from([-1, 1, -2, 2, 16, -16])),
    st.tuples(st.just("nonascii"), st.integers(0, 255), st.sampled_from([0x80, 0xC3, 0xFF])),
    st.tuples(st.just("utf8"), st.integers(0, 255), st.sampled_from(["c3a9", "e282ac", "c3a9c3a9"])),
    st.tuples(st.just("optcut"), st.integers(0, 255), st.booleans()),
)


def mutation_script(max_ops=3):
    return st.lists(mut_op, max_size=max_ops).map(lambda l: [list(x) for x in l])


def apply_mutations(data, fields, script, base=0):
    """apply a mutation script to bytes; `fields` are (offset, width, kind) relative to `base`"""
    b = bytearray(data)
    for op in script:
        if not b and op[0] != "insert":
            continue
        k = op[0]
        if k == "flip":
            b[op[1] % len(b)] ^= 1 << (op[2] % 8)
        elif k == "set":
            b[op[1] % len(b)] = op[2] & 0xFF
        elif k == "trunc":
            del b[op[1] % (len(b) + 1) :]
        elif k == "insert":
            pos = op[1] % (len(b) + 1)
            b[pos:pos] = bytes.fromhex(op[2])
        elif k == "dup":
            pos = op[1] % len(b)
            seg = b[pos : pos + op[2]]
            b[pos:pos] = seg
        elif k == "optcut":
            # the options array ends at an exact option boundary: its length field is rewritten to the size of the first
            # k options (the entries stay byte-identical), the cut-off options stay behind as trailing bytes or are removed
            o4 = [f for f in fields if f[2] == "olen4"]
            starts = sorted(f[0] for f in fields if f[2] == "olen")
            if o4 and starts:
                off = o4[0][0] + base
                if off + 4 <= len(b):
                    v = starts[op[1] % len(starts)] - (o4[0][0] + 4)
                    b[off : off + 4] = v.to_bytes(4, "big")
                    if op[2]:
                        del b[off + 4 + v :]
        elif k == "utf8":
            # a valid multi-byte UTF-8 sequence written over the text of a configuration string
            sel = [f for f in fields if f[2] == "cfgchar"]
            if sel:
                off = sel[op[1] % len(sel)][0] + base
                seq = bytes.fromhex(op[2])
                if off + len(seq) <= len(b):
                    b[off : off + len(seq)] = seq
        elif k in ("field", "field+", "nonascii"):
            sel = [f for f in fields if (k != "nonascii" or f[2] == "cfgchar")] or fields
            if not sel:
                continue
            off, width, _ = sel[op[1] % len(sel)]
            off += base
            if off + width > len(b):
                continue
            if k == "field":
                v = op[2] & ((1 << (8 * width)) - 1)
            elif k == "field+":
                v = (int.from_bytes(b[off : off + width], "big") + op[2]) & ((1 << (8 * width)) - 1)
            else:
                v = op[2] & 0xFF
                width = 1
            b[off : off + width] = v.to_bytes(width, "big")
    return bytes(b)


def cfg_length_sweep():
    """configuration options holding one string of every length the one-byte prefix can express, as a bare key and as key=value"""
    out = []
    for total in range(1, 256):
        out.append(dict(k="cfg", items=[["k" * total, None]]))
        if total >= 2:
            klen = min(3, total - 1)
            out.append(dict(k="cfg", items=[["k" * klen, "v" * (total - 1 - klen)]]))
    return out
