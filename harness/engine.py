"""Generic search engine: regression replays, fixed cases, sharded exhaustive
enumeration, sharded Hypothesis generation with collect-then-minimise, known-finding
handling, evidence writer.  A property module provides the generators and the pure
verdict function run_case(case)."""
from __future__ import annotations

import collections
import glob
import hashlib
import importlib
import json
import multiprocessing
import os
import sys
import time
import traceback

ROOT = os.path.dirname(os.path.dirname(os.path.abspath(__file__)))
OUT = os.environ.get("VERIF_OUT") or ROOT  # where evidence/ and replays/found/ are written
NPROC = min(16, os.cpu_count() or 1)


# --------------------------------------------------------------------------- verdicts
def ok(nontrivial=False, labels=()):
    return {"ok": True, "nontrivial": bool(nontrivial), "labels": list(labels)}


def bad(clause, detail, nontrivial=True, labels=()):
    return {"ok": False, "clause": clause, "detail": str(detail)[:2000], "nontrivial": bool(nontrivial),
            "labels": list(labels)}


class Violation(Exception):
    """raised inside run_case helpers; converted to a verdict by guard()"""

    def __init__(self, clause, detail=""):
        super().__init__(f"{clause}: {detail}")
        self.clause = clause
        self.detail = detail


def require(cond, clause, detail=""):
    if not cond:
        raise Violation(clause, detail() if callable(detail) else detail)


def case_hash(case):
    return hashlib.sha1(json.dumps(case, sort_keys=True, separators=(",", ":")).encode()).digest()[:8]


def load_prop(pid):
    return importlib.import_module(f"harness.props.{pid.lower()}")


def _lib_frame(tb):
    """True if the innermost frame that is neither standard library nor third party lies in the library under test"""
    from . import simkit

    src = os.path.realpath(simkit._SRC)
    here = os.path.dirname(os.path.realpath(__file__))
    # frames of the standard library / third-party packages are attributed to their caller (an enum lookup or a
    # recursion limit hit inside the library is the library's exception, the same inside the harness is ours)
    for fs in reversed(traceback.extract_tb(tb)):
        fn = os.path.realpath(fs.filename)
        if fn.startswith(src):
            return True
        if fn.startswith(here):
            return False
    return False


def run_guarded(mod, case):
    """run_case with exception bucketing: Violation -> verdict; exception whose innermost
    frame is library code -> violation '<id>.library-raised'; anything else -> harness error"""
    try:
        return mod.run_case(case)
    except Violation as v:
        return bad(mod.PID + v.clause[1:] if v.clause.startswith("*.") else v.clause, v.detail)
    except Exception as exc:  # noqa: BLE001
        tb = sys.exc_info()[2]
        if _lib_frame(tb):
            fr = traceback.extract_tb(tb)[-1]
            return bad(f"{mod.PID}.library-raised", f"{type(exc).__name__}: {exc} at {os.path.basename(fr.filename)}:{fr.name}")
        return {"ok": None, "error": traceback.format_exc()[-3000:]}


# --------------------------------------------------------------------------- worker
class Stats:
    def __init__(self):
        self.evaluations = 0
        self.hashes = set()
        self.labels = collections.Counter()
        self.samples = []
        self.failures = {}  # clause -> [count, first case, detail]
        self.errors = []
        self.extra = {}

    def add(self, case, res, max_samples=3):
        self.evaluations += 1
        if res.get("ok") is None:
            if len(self.errors) < 3:
                self.errors.append({"case": case, "error": res.get("error")})
            return
        for lab in res.get("labels", ()):
            self.labels[lab] += 1
        if res.get("nontrivial"):
            h = case_hash(case)
            if h not in self.hashes:
                self.hashes.add(h)
                if len(self.samples) < max_samples and len(json.dumps(case)) < 6000:
                    self.samples.append(case)
        if not res["ok"]:
            slot = self.failures.setdefault(res["clause"], [0, case, res["detail"]])
            slot[0] += 1
            # keep the smallest failing case seen
            if len(json.dumps(case)) < len(json.dumps(slot[1])):
                slot[1], slot[2] = case, res["detail"]

    def dump(self):
        return {
            "evaluations": self.evaluations, "hashes": self.hashes, "labels": dict(self.labels),
            "samples": self.samples, "failures": self.failures, "errors": self.errors, "extra": self.extra,
        }


def _job(args):
    pid, tier, seed, kind, a, b = args
    mod = load_prop(pid)
    st = Stats()
    try:
        if kind == "fixed":
            cases = mod.fixed_cases(tier)
            for c in cases[a:b]:
                st.add(c, run_guarded(mod, c))
        elif kind == "enum":
            for i in range(a, b):
                c = mod.enum_case(tier, i)
                st.add(c, run_guarded(mod, c))
        elif kind == "hyp":
            _hyp(mod, tier, seed * 1000 + a, b, st)
        elif kind == "extra":
            mod.extra(tier, seed, a, st)
    except Exception:  # noqa: BLE001
        st.errors.append({"case": None, "error": traceback.format_exc()[-3000:]})
    return st.dump()


def _hyp(mod, tier, hseed, n, st):
    import hypothesis
    from hypothesis import HealthCheck, Phase, given, settings

    strat = mod.strategy(tier)

    @hypothesis.seed(hseed)
    @settings(
        max_examples=n, database=None, deadline=None, derandomize=False, report_multiple_bugs=False,
        phases=(Phase.generate,),
        suppress_health_check=[HealthCheck.too_slow, HealthCheck.data_too_large, HealthCheck.large_base_example],
    )
    @given(strat)
    def t(case):
        st.add(case, run_guarded(mod, case))

    t()


# --------------------------------------------------------------------------- minimiser
def _candidates(x):
    """smaller variants of a JSON value (one edit each), most aggressive first"""
    if isinstance(x, list) and x and isinstance(x[0], str):
        # a tagged tuple such as ["t", 0, "-q"] or ["flip", 12, 3]: keep its shape, shrink the numbers only
        for i in range(1, len(x)):
            if isinstance(x[i], (int, float)) and not isinstance(x[i], bool):
                for c in _candidates(x[i]):
                    yield x[:i] + [c] + x[i + 1 :]
    elif isinstance(x, list):
        n = len(x)
        if n > 3:
            yield x[: n // 2]
            yield x[n // 2 :]
        for i in range(n - 1, -1, -1):
            yield x[:i] + x[i + 1 :]
        for i in range(n):
            for c in _candidates(x[i]):
                yield x[:i] + [c] + x[i + 1 :]
    elif isinstance(x, dict):
        for k in x:
            for c in _candidates(x[k]):
                d = dict(x)
                d[k] = c
                yield d
    elif isinstance(x, bool):
        if x:
            yield False
    elif isinstance(x, int):
        if x > 0:
            yield 0
            if x > 1:
                yield 1
            if x > 3:
                yield x // 2
    elif isinstance(x, float):
        if x > 0.01:
            yield 0.01


def minimise(mod, case, clause, budget):
    def fails(c):
        r = run_guarded(mod, c)
        return r.get("ok") is False and r["clause"] == clause

    improved = True
    while improved and budget > 0:
        improved = False
        for cand in _candidates(case):
            budget -= 1
            if budget <= 0:
                break
            try:
                if fails(cand):
                    case = cand
                    improved = True
                    break
            except Exception:  # noqa: BLE001
                continue
    return case


# --------------------------------------------------------------------------- findings
def load_findings():
    p = os.path.join(ROOT, "known_findings.json")
    if not os.path.exists(p):
        return []
    with open(p) as f:
        return json.load(f)["findings"]


def finding_matches(fd, clause, case):
    if fd.get("clause") != clause:
        return False
    m = fd.get("case_match") or {}
    return isinstance(case, dict) and all(case.get(k) == v for k, v in m.items())


# --------------------------------------------------------------------------- driver
def _chunks(total, n):
    n = max(1, min(n, total))
    step = (total + n - 1) // n
    return [(i, min(total, i + step)) for i in range(0, total, step)]


def check(pid, tier, seed, out=print):
    t0 = time.time()
    mod = load_prop(pid)
    budget = mod.BUDGET[tier]
    findings = [f for f in load_findings() if f["property"] == pid]
    open_findings = [f for f in findings if f["status"] == "open"]

    total = Stats()
    merged_fail = {}
    parts = collections.OrderedDict()

    def merge(d, part):
        total.evaluations += d["evaluations"]
        total.hashes |= d["hashes"]
        total.labels.update(d["labels"])
        for s in d["samples"]:
            if len(total.samples) < 4:
                total.samples.append(s)
        for clause, (cnt, case, detail) in d["failures"].items():
            slot = merged_fail.setdefault(clause, [0, case, detail, part])
            slot[0] += cnt
            if len(json.dumps(case)) < len(json.dumps(slot[1])):
                slot[1], slot[2], slot[3] = case, detail, part
        total.errors.extend(d["errors"])
        for k, v in d["extra"].items():
            if isinstance(v, (int, float)) and isinstance(total.extra.get(k), (int, float)):
                total.extra[k] += v
            else:
                total.extra[k] = v
        parts[part] = parts.get(part, 0) + d["evaluations"]

    # 1. regression replays + probes of known findings (in-process, they are few)
    regress = sorted(glob.glob(os.path.join(ROOT, "replays", "regress", f"{pid}-*.json")))
    known_lines = []
    for path in regress:
        with open(path) as f:
            doc = json.load(f)
        st = Stats()
        st.add(doc["case"], run_guarded(mod, doc["case"]))
        merge(st.dump(), "regress")

    jobs = []
    if hasattr(mod, "fixed_cases"):
        nfix = len(mod.fixed_cases(tier))
        for a, b in _chunks(nfix, NPROC) if nfix else []:
            jobs.append((pid, tier, seed, "fixed", a, b))
    if hasattr(mod, "enum_size"):
        n = mod.enum_size(tier)
        for a, b in _chunks(n, NPROC * 4) if n else []:
            jobs.append((pid, tier, seed, "enum", a, b))
    if hasattr(mod, "strategy") and budget.get("examples"):
        shards = budget.get("shards", NPROC)
        # VERIF_BUDGET_SCALE: internal knob of tools/run_benign.py (a reduced random part for the false-alarm sweep);
        # registered commands never set it
        scale = float(os.environ.get("VERIF_BUDGET_SCALE") or 1)
        per = max(1, int(budget["examples"] * scale) // shards)
        for s in range(shards):
            jobs.append((pid, tier, seed, "hyp", s, per))
    if hasattr(mod, "extra"):
        for s in range(budget.get("extra_shards", 0)):
            jobs.append((pid, tier, seed, "extra", s, 0))

    if jobs:
        ctx = multiprocessing.get_context("fork")
        with ctx.Pool(min(NPROC, len(jobs))) as pool:
            for job, d in zip(jobs, pool.map(_job, jobs, chunksize=1)):
                merge(d, job[3])

    # classify failures
    violations = []
    for clause in sorted(merged_fail):
        cnt, case, detail, part = merged_fail[clause]
        fd = next((f for f in open_findings if finding_matches(f, clause, case)), None)
        if fd is not None:
            known_lines.append(f"KNOWN-FINDING: property={pid} {fd['id']} {fd['what']}")
            continue
        small = minimise(mod, case, clause, budget.get("shrink", 300))
        r = run_guarded(mod, small)
        if r.get("ok") is False and r["clause"] == clause:
            case, detail = small, r["detail"]
        h = case_hash(case).hex()
        rel = os.path.join("replays", "found", f"{pid}-{clause.split('.', 1)[-1]}-{h}.json")
        os.makedirs(os.path.join(OUT, "replays", "found"), exist_ok=True)
        with open(os.path.join(OUT, rel), "w") as f:
            json.dump({"property": pid, "clause": clause, "detail": detail, "found_in": part, "seed": seed,
                       "tier": tier, "failing_cases_in_run": cnt, "case": case}, f, indent=1, sort_keys=True)
        violations.append((clause, rel, detail, cnt))

    wall = time.time() - t0
    cov = {
        "evaluations": total.evaluations,
        "distinct_nontrivial": len(total.hashes),
        "rule": mod.RULE,
        "samples": total.samples[:4],
        "parts": dict(parts),
        "classes": dict(sorted(total.labels.items())),
        "known_findings_matched": known_lines,
    }
    if getattr(mod, "EXHAUSTIVE", None):
        cov["exhaustive"] = True
        cov["exhaustive_part"] = mod.EXHAUSTIVE if isinstance(mod.EXHAUSTIVE, str) else mod.EXHAUSTIVE.get(tier, "")
    cov.update(total.extra)
    ev = {
        "property_id": pid, "tier": tier, "seed": seed, "level": "exploration", "coverage": cov,
        "assumptions": list(mod.ASSUMPTIONS), "wall_s": round(wall, 2), "violations": len(violations),
        "violation_clauses": [v[0] for v in violations],
        "harness_errors": len(total.errors),
    }
    os.makedirs(os.path.join(OUT, "evidence"), exist_ok=True)
    with open(os.path.join(OUT, "evidence", f"{pid}.json"), "w") as f:
        json.dump(ev, f, indent=1, sort_keys=True, default=str)

    out(f"{pid} tier={tier} seed={seed} evaluations={total.evaluations} distinct_nontrivial={len(total.hashes)} "
        f"parts={dict(parts)} wall={wall:.1f}s")
    for line in known_lines:
        out(line)
    if total.errors:
        out(f"HARNESS-ERROR property={pid} count={len(total.errors)}")
        out(str(total.errors[0]["error"]))
        out(json.dumps(total.errors[0]["case"])[:1500])
    for clause, rel, detail, cnt in violations:
        out(f"VIOLATION property={pid} replay={rel}")
        out(f"  clause={clause} failing_cases={cnt} detail={detail[:600]}")
    if violations:
        return 1
    if total.errors:
        return 2
    if len(total.hashes) < 2:
        out(f"HARNESS-ERROR property={pid} vacuous run (fewer than 2 non-trivial cases)")
        return 2
    return 0


def replay(path, out=print):
    with open(path if os.path.isabs(path) else os.path.join(ROOT, path)) as f:
        doc = json.load(f)
    mod = load_prop(doc["property"])
    r = run_guarded(mod, doc["case"])
    out(json.dumps(r, indent=1)[:4000])
    if r.get("ok") is False:
        out(f"VIOLATION property={doc['property']} replay={path}")
        return 1
    return 0 if r.get("ok") else 2
