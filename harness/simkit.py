"""Simulation kit: library loader, fake transport, random stub, recorders, converters
between plain-data descriptions and library objects."""
from __future__ import annotations

import dataclasses
import ipaddress
import logging
import os
import sys

from . import wire
from .vloop import RES, Sim  # noqa: F401

REPO = os.environ.get("VERIF_REPO", "/repo")
_SRC = os.path.join(REPO, "src")


class HarnessError(Exception):
    pass


def load_library():
    """import someip from $VERIF_REPO/src (the working tree), never from site-packages"""
    if sys.path[0] != _SRC:
        sys.path.insert(0, _SRC)
    import someip
    import someip.config
    import someip.header
    import someip.sd
    import someip.service

    here = os.path.realpath(someip.__file__)
    if not here.startswith(os.path.realpath(_SRC) + os.sep):
        raise HarnessError(f"someip imported from {here}, expected under {_SRC}")
    return someip


someip = load_library()
hdr = someip.header
cfg = someip.config
sd = someip.sd
service = someip.service


class LogCapture(logging.Handler):
    """collects exceptions that the library swallowed into its log (log_exceptions)"""

    def __init__(self):
        super().__init__(level=logging.ERROR)
        self.records = []

    def emit(self, record):
        if record.exc_info and record.exc_info[0] is not None:
            et = record.exc_info[0]
            if issubclass(et, hdr.ParseError):
                return
            self.records.append((et.__name__, str(record.exc_info[1]), record.name))


_CAPTURE = LogCapture()


def setup_logging():
    root = logging.getLogger("someip")
    root.handlers[:] = [_CAPTURE]
    root.propagate = False
    root.setLevel(logging.ERROR)
    logging.getLogger("asyncio").disabled = True
    import warnings

    warnings.simplefilter("ignore")


def swallowed():
    r = list(_CAPTURE.records)
    _CAPTURE.records.clear()
    return r


setup_logging()


class RandomStub:
    """replacement for the `random` module inside someip.sd: uniform() takes its
    fractions from the case and records the window it was asked for"""

    def __init__(self, fracs=()):
        self.fracs = list(fracs)
        self.i = 0
        self.calls = []

    def uniform(self, a, b):
        f = self.fracs[self.i % len(self.fracs)] if self.fracs else 0.5
        self.i += 1
        v = a + f * (b - a)
        self.calls.append((a, b, v))
        return v


def install_random(fracs=()):
    stub = RandomStub(fracs)
    sd.random = stub
    return stub


class FakeTransport:
    def __init__(self, sim, sockname=("10.0.0.1", 30490), on_send=None):
        self.sim = sim
        self.sockname = sockname
        self.sent = []  # (virtual time, destination, bytes)
        self.on_send = on_send
        self.blackhole = False
        self.closed = False

    def sendto(self, data, addr=None):
        if self.blackhole:
            return
        rec = (self.sim.now, addr, bytes(data))
        self.sent.append(rec)
        if self.on_send:
            self.on_send(*rec)

    def get_extra_info(self, key, default=None):
        if key == "sockname":
            return self.sockname
        return default

    def close(self):
        self.closed = True

    def is_closing(self):
        return self.closed


MCAST = ("224.244.224.245", 30490)
MCAST6 = ("ff02::1:5", 30490, 0, 0)


def make_sd(sim, timings=None, sockname=("10.0.0.1", 30490), mcast=MCAST, on_send=None):
    prot = sd.ServiceDiscoveryProtocol(mcast, timings=timings) if timings is not None else sd.ServiceDiscoveryProtocol(mcast)
    prot.transport = FakeTransport(sim, sockname, on_send)
    return prot


def timings(**kw):
    base = dict(
        INITIAL_DELAY_MIN=0.0, INITIAL_DELAY_MAX=0.0, REQUEST_RESPONSE_DELAY_MIN=0.0,
        REQUEST_RESPONSE_DELAY_MAX=0.0, REPETITIONS_MAX=0, REPETITIONS_BASE_DELAY=0.01,
        CYCLIC_OFFER_DELAY=1, FIND_TTL=3, ANNOUNCE_TTL=3, SUBSCRIBE_TTL=5,
        SUBSCRIBE_REFRESH_INTERVAL=3, SEND_COLLECTION_TIMEOUT=0,
    )
    base.update(kw)
    return sd.Timings(**base)


def late(tm, on=True):
    """-> (constructor argument, apply(prot=None) -> the live Timings object).  With `on`, nothing is passed to the
    constructor: the protocol object makes its own default Timings, whose fields apply(prot) assigns afterwards - the way
    an application configures a protocol object it got from create_endpoints(), which takes no timings argument.  A
    second, equally default-constructed protocol object of the same process (the other address family of a dual-stack
    node) is then given settings of its own; it is never started.  Without a protocol object (a ServiceInstance's own
    timings) apply() fills a fresh Timings()."""
    if not on:
        return tm, (lambda prot=None: tm)
    own = sd.Timings()

    def apply(prot=None):
        target = prot.timings if prot is not None else own
        for f in dataclasses.fields(tm):
            setattr(target, f.name, getattr(tm, f.name))
        if prot is not None:
            other = sd.ServiceDiscoveryProtocol(MCAST6)
            for name, v in (("INITIAL_DELAY_MIN", 0.0123), ("INITIAL_DELAY_MAX", 0.0456), ("REPETITIONS_MAX", 6), ("REPETITIONS_BASE_DELAY", 0.0789),
                            ("CYCLIC_OFFER_DELAY", 0.77), ("FIND_TTL", 9), ("ANNOUNCE_TTL", 9), ("SUBSCRIBE_TTL", 9), ("SUBSCRIBE_REFRESH_INTERVAL", 0.66),
                            ("SEND_COLLECTION_TIMEOUT", 0.0321), ("REQUEST_RESPONSE_DELAY_MIN", 0.0111), ("REQUEST_RESPONSE_DELAY_MAX", 0.0222)):
                setattr(other.timings, name, v)
        return target

    return None, apply


# ---------------------------------------------------------------- addresses
def addr(a):
    """JSON list -> sockaddr tuple"""
    if a is None:
        return None
    return tuple(a)


ADDRS = [("10.0.0.2", 30490), ("2001:db8::3", 30490, 0, 0), ("10.0.0.4", 30491)]
# peers that differ from ADDRS[0..1] in exactly one component of the socket address (scope id, flow label, port, host)
TWINS = [("2001:db8::3", 30490, 0, 7), ("2001:db8::3", 30490, 9, 0), ("10.0.0.2", 30491), ("10.0.0.3", 30490), ("2001:db8::3", 30491, 0, 0)]


def peer_addr(i):
    """socket address of peer #i: ADDRS, then the one-component twins, then as many further IPv4 hosts as asked for"""
    pool = ADDRS + TWINS
    if i < len(pool):
        return pool[i]
    i -= len(pool)
    return (f"10.{1 + ((i >> 16) & 0x7F)}.{(i >> 8) & 255}.{i & 255}", 30490)


# ---------------------------------------------------------------- options
_IPCLS = {
    0x04: "IPv4EndpointOption", 0x14: "IPv4MulticastOption", 0x24: "IPv4SDEndpointOption",
    0x06: "IPv6EndpointOption", 0x16: "IPv6MulticastOption", 0x26: "IPv6SDEndpointOption",
}


def lib_option(d):
    """plain-data option description -> library option object"""
    k = d["k"]
    if k == "ip":
        cls = getattr(hdr, _IPCLS[d["type"]])
        proto = d["proto"]
        try:
            proto = hdr.L4Protocols(proto)
        except ValueError:
            pass
        return cls(address=ipaddress.ip_address(d["addr"]), l4proto=proto, port=d["port"])
    if k == "lb":
        return hdr.SOMEIPSDLoadBalancingOption(priority=d["prio"], weight=d["weight"])
    if k == "cfg":
        return hdr.SOMEIPSDConfigOption(configs=tuple((a, b) for a, b in d["items"]))
    if k == "unk":
        data = bytes.fromhex(d["data"])
        return hdr.SOMEIPSDUnknownOption(type=d["type"], payload=data)
    raise ValueError(k)


def option_desc(o):
    """library option object -> semantic tuple comparable with wire.option_semantic"""
    if isinstance(o, hdr.AbstractIPOption):
        return ("ip", o.type, str(o.address), int(o.l4proto), o.port)
    if isinstance(o, hdr.SOMEIPSDLoadBalancingOption):
        return ("lb", o.priority, o.weight)
    if isinstance(o, hdr.SOMEIPSDConfigOption):
        return ("cfg", tuple((a, b) for a, b in o.configs))
    if isinstance(o, hdr.SOMEIPSDUnknownOption):
        return ("unk", o.type, bytes(o.payload).hex())
    raise ValueError(repr(o))


def desc_semantic(d):
    """semantic tuple of a plain-data description (as generated)"""
    k = d["k"]
    if k == "ip":
        return ("ip", d["type"], str(ipaddress.ip_address(d["addr"])), d["proto"], d["port"])
    if k == "lb":
        return ("lb", d["prio"], d["weight"])
    if k == "cfg":
        return ("cfg", tuple((a, b) for a, b in d["items"]))
    return ("unk", d["type"], d["data"])


def ep_desc(addr_, port, proto=17):
    ip = ipaddress.ip_address(addr_)
    return dict(k="ip", type=0x04 if ip.version == 4 else 0x06, addr=str(ip), proto=proto, port=port)


# ---------------------------------------------------------------- decoding sends
def decode_sent_sd(rec):
    """(t, dest, bytes) of a fake transport -> list of (t, dest, someip fields, sd dict)"""
    t, dest, data = rec
    out = []
    for f in wire.split_datagram(data):
        if f["service"] == wire.SD_SERVICE and f["method"] == wire.SD_METHOD:
            try:
                out.append((t, dest, f, wire.decode_sd(f["payload"])))
            except wire.WireError as we:
                # what the library transmitted is not a well-formed SD message: whatever the property, the entries it was
                # meant to carry did not reach their destination
                from .engine import Violation
                raise Violation("*.undecodable-transmission", f"the SD message sent to {dest} at t={t:.6f} is malformed for the independent decoder ({we}): {bytes(f['payload'])[:96].hex()}")
    return out


def sent_entries(transport, start=0):
    """flat list of dicts: one per SD entry sent, with time, destination, session, flags and
    resolved option runs (semantic tuples)"""
    out = []
    for rec in transport.sent[start:]:
        for t, dest, f, sdm in decode_sent_sd(rec):
            for e in wire.sd_resolved(sdm):
                e = dict(e)
                e["t"] = t
                e["dest"] = dest
                e["session"] = f["session"]
                e["flags"] = sdm["flags"]
                e["run1"] = [wire.option_semantic(o) for o in e["run1"]]
                e["run2"] = [wire.option_semantic(o) for o in e["run2"]]
                out.append(e)
    return out


class Recorder:
    """records calls (virtual time, name, args) - used for listeners"""

    def __init__(self, sim):
        self.sim = sim
        self.calls = []

    def rec(self, name, *args):
        self.calls.append((self.sim.now, name) + args)


# ---------------------------------------------------------------- SD datagrams from plain entries
def sd_entries_builder(entries):
    """entries: list of dicts {t: offer|stop|find|sub|stopsub|ack|nack, svc, inst, major, minor, ttl, eg, counter,
    eps: [[addr, port, proto]...], opts: [option descs]} -> wire.SDBuilder"""
    b = wire.SDBuilder()
    for e in entries:
        k = e["t"]
        opts = [ep_desc(*x) for x in e.get("eps", [])] + list(e.get("opts", []))
        svc, inst, major = e.get("svc", 0x1000), e.get("inst", 1), e.get("major", 1)
        if k in ("offer", "stop"):
            b.add(wire.OFFER, svc, inst, major, 0 if k == "stop" else e.get("ttl", 3), minor=e.get("minor", 0),
                  run1=opts, run2=e.get("opts2", []))
        elif k == "find":
            b.add(wire.FIND, svc, inst, major, e.get("ttl", 3), minor=e.get("minor", 0xFFFFFFFF))
        elif k in ("sub", "stopsub"):
            b.add(wire.SUBSCRIBE, svc, inst, major, 0 if k == "stopsub" else e.get("ttl", 3), counter=e.get("counter", 0),
                  eventgroup=e.get("eg", 1), run1=opts, run2=e.get("opts2", []))
        elif k in ("ack", "nack"):
            b.add(wire.SUBSCRIBE_ACK, svc, inst, major, 0 if k == "nack" else e.get("ttl", 3), counter=e.get("counter", 0),
                  eventgroup=e.get("eg", 1))
        else:
            raise ValueError(k)
    return b


def sd_bytes(entries, session, reboot=True, unicast=True):
    return sd_entries_builder(entries).datagram(session, reboot=reboot, unicast=unicast)


class Sessions:
    """per (peer, channel) session counters of simulated peers: next() follows the protocol,
    reset() simulates a restart (id 1, reboot flag set)"""

    def __init__(self):
        self.state = {}

    def next(self, key):
        flag, n = self.state.get(key, (True, 1))
        self.state[key] = (flag, n + 1) if n < 0xFFFF else (False, 1)
        return flag, n

    def reset(self, key):
        self.state[key] = (True, 1)

    def reset_peer(self, peer):
        for k in list(self.state):
            if k[0] == peer:
                del self.state[k]


def svc_key(s):
    return (s.service_id, s.instance_id, s.major_version, s.minor_version)


def sub_key(s):
    return (s.service_id, s.instance_id, s.major_version, s.id, s.counter,
            tuple(sorted(option_desc(e) for e in s.endpoints)))


class ClientRec(sd.ClientServiceListener):
    def __init__(self, sim, log, name):
        self.sim, self.log, self.name = sim, log, name

    def service_offered(self, service, source):
        self.log.append((self.sim.now, self.name, "offered", svc_key(service), tuple(source)))

    def service_stopped(self, service, source):
        self.log.append((self.sim.now, self.name, "stopped", svc_key(service), tuple(source)))


class ServerRec(sd.ServerServiceListener):
    """records; decide(subscription, source) -> True to accept"""

    def __init__(self, sim, log, name, decide=None):
        self.sim, self.log, self.name, self.decide = sim, log, name, decide

    def client_subscribed(self, subscription, source):
        accept = True if self.decide is None else bool(self.decide(subscription, source))
        self.log.append((self.sim.now, self.name, "subscribed" if accept else "rejected", sub_key(subscription), tuple(source), subscription.ttl))
        if not accept:
            raise sd.NakSubscription

    def client_unsubscribed(self, subscription, source):
        self.log.append((self.sim.now, self.name, "unsubscribed", sub_key(subscription), tuple(source), subscription.ttl))


# ---------------------------------------------------------------- structural state snapshot
def deep_state(root, max_depth=12):
    """a structural fingerprint of everything reachable from a library object: attribute names and values of
    library-defined objects, containers, timer deadlines - independent of how the library names or nests its state.
    Loggers, locks, transports, tasks, functions and harness objects are skipped."""
    import asyncio
    import dataclasses
    import enum
    import threading

    seen = set()
    lock_types = (type(threading.Lock()), type(threading.RLock()))

    def walk(o, depth):
        if o is None or isinstance(o, (bool, int, float, str, bytes, bytearray)):
            return o if not isinstance(o, float) else round(o, 6)
        if isinstance(o, enum.Enum):
            return repr(o)
        if isinstance(o, asyncio.TimerHandle):
            return ("timer", round(o.when(), 6), o.cancelled())
        if isinstance(o, (asyncio.Handle, asyncio.Future, asyncio.Event, logging.Logger, FakeTransport)) or isinstance(o, lock_types) or callable(o):
            return None
        if depth > max_depth or id(o) in seen:
            return "..."
        if isinstance(o, (list, tuple)) or type(o).__name__ == "deque":
            return [walk(x, depth + 1) for x in o]
        if isinstance(o, (set, frozenset)):
            return sorted((repr(walk(x, depth + 1)) for x in o))
        if isinstance(o, dict):
            return sorted(((repr(walk(k, depth + 1)), walk(v, depth + 1)) for k, v in o.items()), key=lambda kv: kv[0])
        mod = type(o).__module__ or ""
        if not mod.startswith("someip"):
            return None    # harness objects (recording listeners) and foreign objects
        if dataclasses.is_dataclass(o):
            # field by field (a repr would contain the memory addresses of nested plain objects)
            return (type(o).__name__, [(f.name, walk(getattr(o, f.name, None), depth + 1)) for f in dataclasses.fields(o)])
        seen.add(id(o))
        try:
            attrs = vars(o)
        except TypeError:
            return repr(type(o))
        return (type(o).__name__, sorted(((k, walk(v, depth + 1)) for k, v in attrs.items() if k not in ("log", "sd", "announcer", "timings")), key=lambda kv: kv[0]))

    return walk(root, 0)
