"""History driver: executes a list of steps on a Sim with schedule-aware timing (DESIGN 2.2).

A step is a dict with a key "when":
  ["d", dt]        dt virtual seconds after the previous step
  ["t", k, kind]   relative to the k-th pending library timer (sorted, k taken modulo their number), kind in
                   "-4" (-4 RES: one full iteration earlier), "-q" (-RES/4: same iteration, before the timer),
                   "+q" (+RES/4: same iteration, after it), "+4" (+4 RES: one iteration later), "half";
                   falls back to a delay of 0.5 s when no timer is pending
  ["s"]            in the same driver callback as the previous step (same loop iteration, list order)
Steps of one group run inside one timer callback, so they interleave with the library's own timers exactly like
external events.  After every group the loop is run to an idle point; `after_group(i0, i1)` is then called.
"""
from __future__ import annotations

from .vloop import RES

OFFSETS = {"-4": -4 * RES, "-q": -RES / 4, "+q": RES / 4, "+4": 4 * RES}


def resolve(sim, when):
    k = when[0]
    if k == "d":
        return sim.now + max(0.0, float(when[1]))
    if k == "t":
        timers = sim.pending_timers()
        if not timers:
            return sim.now + 0.5
        t = timers[int(when[1]) % len(timers)]
        if when[2] == "half":
            return sim.now + (t - sim.now) / 2
        return max(sim.now, t + OFFSETS[when[2]])
    return sim.now


def drive(sim, steps, execute, after_group=None, trace=None, barrier=None, splitter=None):
    """barrier(step) -> True: the step forms a group of its own (idle points before and after it);
    splitter(steps_of_group_so_far, step) -> True: the step may not join this group (it starts the next one)"""
    i = 0
    n = len(steps)
    while i < n:
        j = i + 1
        while (j < n and steps[j].get("when", ["d", 0.01])[0] in ("s", "i") and not (barrier and barrier(steps[j - 1]))
               and not (barrier and barrier(steps[j])) and not (splitter and splitter(steps[i:j], steps[j]))):
            j += 1
        t = resolve(sim, steps[i].get("when", ["d", 0.01]))

        pending = [0]
        failure = []

        def run_from(k, j=j):
            # executes steps k..j-1; a step with when ["i", n] is pushed n iterations ahead with call_soon
            try:
                while k < j:
                    w = steps[k].get("when", ["d", 0.01])
                    if w[0] == "i" and not getattr(run_from, "resumed", None) == k:
                        run_from.resumed = k
                        pending[0] += 1
                        hops = max(1, min(6, int(w[1])))

                        def hop(left, k=k):
                            if left > 1:
                                sim.loop.call_soon(hop, left - 1)
                                return
                            pending[0] -= 1
                            run_from(k)

                        sim.loop.call_soon(hop, hops)
                        return
                    execute(k, steps[k])
                    k += 1
            except BaseException as exc:  # noqa: BLE001 - re-raised outside the loop below
                failure.append(exc)

        sim.do_at(t, run_from, i)
        while pending[0] and not failure:
            sim.step()
        sim.settle()
        if failure:
            raise failure[0]
        if trace is not None:
            trace.append((i, j, sim.now))
        if after_group:
            after_group(i, j)
        i = j


def near(a, b):
    return abs(a - b) < RES
