"""./run check <Cxx> [--tier quick|thorough] | replay <file> | selftest [...]"""
from __future__ import annotations

import argparse
import os
import sys


def main(argv=None):
    ap = argparse.ArgumentParser(prog="run")
    sub = ap.add_subparsers(dest="cmd", required=True)
    c = sub.add_parser("check")
    c.add_argument("pid")
    c.add_argument("--tier", default=os.environ.get("VERIF_TIER") or "quick", choices=["quick", "thorough"])
    r = sub.add_parser("replay")
    r.add_argument("path")
    s = sub.add_parser("selftest")
    s.add_argument("pids", nargs="*")
    s.add_argument("--dir", default=None)
    s.add_argument("--tier", default="quick")
    s.add_argument("--match", default=None, help="comma separated substrings of mutant names")
    args = ap.parse_args(argv)

    if args.cmd == "selftest":
        from . import selftest

        return selftest.main(args.pids, args.dir, args.tier, args.match)

    try:
        seed = int(os.environ.get("VERIF_SEED") or "1")
    except ValueError:
        seed = 1
    try:
        from . import engine

        if args.cmd == "check":
            return engine.check(args.pid.upper(), args.tier, seed)
        return engine.replay(args.path)
    except Exception:  # noqa: BLE001
        import traceback

        traceback.print_exc()
        print("HARNESS-ERROR (exit 2)")
        return 2


if __name__ == "__main__":
    sys.exit(main())
