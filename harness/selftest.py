"""Sensitivity self-test (not a registered check): applies each mutant to a scratch copy
of the repository's sources outside /repo and /verif and expects the quick check of the
property to exit 1.

mutants/<PID>.json : [{"name", "file", "old", "new"}, ...]   (exact string replacement)
seeded/<id>/        : patch.diff + meta.json {"property": ...}  (changes written by sub-agents)
"""
from __future__ import annotations

import glob
import json
import os
import shutil
import subprocess
import sys
import tempfile

ROOT = os.path.dirname(os.path.dirname(os.path.abspath(__file__)))
REPO = "/repo"


def _scratch():
    d = tempfile.mkdtemp(prefix="verif-mut-")
    shutil.copytree(os.path.join(REPO, "src"), os.path.join(d, "src"))
    return d


def _run(pid, d, tier):
    env = dict(os.environ, VERIF_REPO=d, VERIF_OUT=os.path.join(d, "out"))
    p = subprocess.run([os.path.join(ROOT, "run"), "check", pid, "--tier", tier], env=env, capture_output=True, text=True)
    return p.returncode, p.stdout + p.stderr


def main(pids, only_dir, tier, match=None):
    results = []
    todo = []
    for path in sorted(glob.glob(os.path.join(ROOT, "mutants", "*.json"))):
        pid = os.path.basename(path)[:-5]
        if pids and pid not in pids:
            continue
        for m in json.load(open(path)):
            todo.append((pid, "mutants/" + m["name"], m))
    for meta in sorted(glob.glob(os.path.join(ROOT, "seeded", "*", "meta.json"))):
        md = json.load(open(meta))
        for pid in md.get("properties", [md.get("property")]):
            if pids and pid not in pids:
                continue
            todo.append((pid, "seeded/" + os.path.basename(os.path.dirname(meta)), {"patch": os.path.join(os.path.dirname(meta), "patch.diff")}))
    if match:
        todo = [t for t in todo if any(x in t[1] for x in match.split(","))]
    missed = 0
    for pid, name, m in todo:
        d = _scratch()
        try:
            if "patch" in m:
                r = subprocess.run(["patch", "-p1", "-s", "-d", d, "-i", m["patch"]], capture_output=True, text=True)
                if r.returncode != 0:
                    print(f"{pid} {name}: PATCH-FAILED {r.stdout} {r.stderr}")
                    missed += 1
                    continue
            else:
                stale = False
                for ed in m.get("edits") or [m]:
                    fp = os.path.join(d, ed["file"])
                    s = open(fp).read()
                    if s.count(ed["old"]) != 1:
                        print(f"{pid} {name}: MUTANT-STALE (old text occurs {s.count(ed['old'])} times)")
                        stale = True
                        break
                    open(fp, "w").write(s.replace(ed["old"], ed["new"]))
                if stale:
                    missed += 1
                    continue
            code, out = _run(pid, d, tier)
            clauses = [l.strip() for l in out.splitlines() if l.strip().startswith("clause=")]
            verdict = "KILLED" if code == 1 else ("HARNESS-ERROR" if code == 2 else "MISSED")
            if code != 1:
                missed += 1
            print(f"{pid} {name}: {verdict} {clauses[0][:160] if clauses else ''}")
            if code == 2:
                print(out[-1500:])
            sys.stdout.flush()
        finally:
            shutil.rmtree(d, ignore_errors=True)
    print(f"selftest: {len(todo)} mutants, {missed} not killed")
    return 1 if missed else 0
