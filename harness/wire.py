"""Independent SOME/IP and SOME/IP-SD codec, written from the specification's layout
tables with int.from_bytes / to_bytes only.  It does not import the library.

Everything is plain data (dicts, ints, bytes) so that oracles never compare the
library's encoder with the library's decoder only.
"""
from __future__ import annotations

import ipaddress

MESSAGE_TYPES = (0x00, 0x01, 0x02, 0x40, 0x41, 0x42, 0x80, 0x81, 0xC0, 0xC1)
RETURN_CODES = tuple(range(0, 11))
# headers with a meaning of their own in the specification: (service, method, client, session, interface version,
# message type, return code): TCP magic cookies (client / server side) and the SD notification
WELL_KNOWN_HEADERS = (
    (0xFFFF, 0x0000, 0xDEAD, 0xBEEF, 1, 0x01, 0),
    (0xFFFF, 0x8000, 0xDEAD, 0xBEEF, 1, 0x02, 0),
    (0xFFFF, 0x8100, 0x0000, 0x0001, 1, 0x02, 0),
)

SD_SERVICE = 0xFFFF
SD_METHOD = 0x8100

FIND, OFFER, SUBSCRIBE, SUBSCRIBE_ACK = 0, 1, 6, 7
ENTRY_TYPES = (FIND, OFFER, SUBSCRIBE, SUBSCRIBE_ACK)

OPT_CONFIG = 0x01
OPT_LOADBAL = 0x02
OPT_IP4_EP, OPT_IP6_EP = 0x04, 0x06
OPT_IP4_MC, OPT_IP6_MC = 0x14, 0x16
OPT_IP4_SD, OPT_IP6_SD = 0x24, 0x26
IP4_TYPES = (OPT_IP4_EP, OPT_IP4_MC, OPT_IP4_SD)
IP6_TYPES = (OPT_IP6_EP, OPT_IP6_MC, OPT_IP6_SD)
KNOWN_OPTION_TYPES = (OPT_CONFIG, OPT_LOADBAL) + IP4_TYPES + IP6_TYPES


class WireError(Exception):
    """kind is 'incomplete' (buffer ends too early) or 'invalid'"""

    def __init__(self, kind, msg=""):
        super().__init__(f"{kind}: {msg}")
        self.kind = kind


def _u(b):
    return int.from_bytes(b, "big")


def _b(v, n):
    return int(v).to_bytes(n, "big")


# --------------------------------------------------------------------------- SOME/IP
def encode_someip(service, method, client, session, iface, mtype, rcode, payload, proto=1, length=None):
    if length is None:
        length = len(payload) + 8
    return (
        _b(service, 2) + _b(method, 2) + _b(length, 4) + _b(client, 2) + _b(session, 2)
        + _b(proto, 1) + _b(iface, 1) + _b(mtype, 1) + _b(rcode, 1) + bytes(payload)
    )


def decode_someip(buf):
    """returns (fields dict, rest) or raises WireError"""
    if len(buf) < 16:
        raise WireError("incomplete", "header")
    f = dict(
        service=_u(buf[0:2]), method=_u(buf[2:4]), length=_u(buf[4:8]), client=_u(buf[8:10]),
        session=_u(buf[10:12]), proto=buf[12], iface=buf[13], mtype=buf[14], rcode=buf[15],
    )
    if f["proto"] != 1:
        raise WireError("invalid", "protocol version")
    if f["mtype"] not in MESSAGE_TYPES:
        raise WireError("invalid", "message type")
    if f["rcode"] not in RETURN_CODES:
        raise WireError("invalid", "return code")
    if f["length"] < 8:
        raise WireError("invalid", "length < 8")
    end = 16 + f["length"] - 8
    if len(buf) < end:
        raise WireError("incomplete", "payload")
    f["payload"] = bytes(buf[16:end])
    return f, bytes(buf[end:])


def split_datagram(buf):
    """all SOME/IP messages of a datagram (stops at the first undecodable position)"""
    out = []
    while buf:
        try:
            f, buf = decode_someip(buf)
        except WireError:
            break
        out.append(f)
    return out


# --------------------------------------------------------------------------- options
def encode_option_raw(otype, payload, length=None, reserved=0):
    """payload = bytes after the reserved byte. length counts reserved byte + payload"""
    if length is None:
        length = len(payload) + 1
    return _b(length, 2) + _b(otype, 1) + _b(reserved, 1) + bytes(payload)


def encode_option(desc, reserved=0, reserved2=0, cfg_tail=b""):
    """desc: plain-data option description (see strategies.option_descs)"""
    k = desc["k"]
    if k == "ip":
        addr = ipaddress.ip_address(desc["addr"]).packed
        body = addr + _b(reserved2, 1) + _b(desc["proto"], 1) + _b(desc["port"], 2)
        return encode_option_raw(desc["type"], body, reserved=reserved)
    if k == "lb":
        return encode_option_raw(OPT_LOADBAL, _b(desc["prio"], 2) + _b(desc["weight"], 2), reserved=reserved)
    if k == "cfg":
        body = b""
        for key, val in desc["items"]:
            s = key.encode("ascii") if val is None else key.encode("ascii") + b"=" + val.encode("ascii")
            body += _b(len(s), 1) + s
        body += b"\x00" + bytes(cfg_tail)
        return encode_option_raw(OPT_CONFIG, body, reserved=reserved)
    if k == "unk":
        data = bytes.fromhex(desc["data"])  # everything after the type byte
        return _b(len(data), 2) + _b(desc["type"], 1) + data
    raise ValueError(k)


def decode_option_body(otype, data):
    """data = bytes after the type byte (reserved byte first). returns desc or raises"""
    if otype in IP4_TYPES or otype in IP6_TYPES:
        n = 4 if otype in IP4_TYPES else 16
        if len(data) != 1 + n + 4:
            raise WireError("invalid", "ip option length")
        addr = ipaddress.ip_address(bytes(data[1 : 1 + n]))
        return dict(k="ip", type=otype, addr=str(addr), proto=data[2 + n], port=_u(data[3 + n : 5 + n]),
                    reserved=data[0], reserved2=data[1 + n])
    if otype == OPT_LOADBAL:
        if len(data) != 5:
            raise WireError("invalid", "loadbal length")
        return dict(k="lb", prio=_u(data[1:3]), weight=_u(data[3:5]), reserved=data[0])
    if otype == OPT_CONFIG:
        if len(data) < 2:
            raise WireError("invalid", "config length")
        items = []
        pos = 1
        nonascii = False
        while True:
            if pos >= len(data):
                raise WireError("invalid", "config unterminated")
            ln = data[pos]
            pos += 1
            if ln == 0:
                break
            if pos + ln > len(data) - 0 or pos + ln >= len(data):
                # the string must be followed by at least the next length byte
                raise WireError("invalid", "config string overruns")
            s = bytes(data[pos : pos + ln])
            pos += ln
            if any(c >= 0x80 for c in s):
                nonascii = True
                items.append(None)
                continue
            eq = s.find(b"=")
            if eq < 0:
                items.append([s.decode("ascii"), None])
            else:
                items.append([s[:eq].decode("ascii"), s[eq + 1 :].decode("ascii")])
        d = dict(k="cfg", items=items, reserved=data[0], tail=bytes(data[pos:]).hex())
        if nonascii:
            d["nonascii"] = True
        return d
    return dict(k="unk", type=otype, data=bytes(data).hex())


def decode_options_array(buf):
    """returns list of (desc) for an options array; raises WireError"""
    out = []
    pos = 0
    while pos < len(buf):
        if len(buf) - pos < 3:
            raise WireError("incomplete", "option header")
        ln = _u(buf[pos : pos + 2])
        otype = buf[pos + 2]
        data = buf[pos + 3 : pos + 3 + ln]
        if len(data) < ln:
            raise WireError("invalid", "option overruns array")
        out.append(decode_option_body(otype, data))
        pos += 3 + ln
    return out


# --------------------------------------------------------------------------- entries
def encode_entry(e):
    """e: dict(type, idx1, idx2, n1, n2, service, instance, major, ttl, and either minor
    or (counter, eventgroup[, reserved12]))"""
    if "minor" in e:
        last = _b(e["minor"], 4)
    else:
        last = _b((e.get("reserved12", 0) << 20) | (e["counter"] << 16) | e["eventgroup"], 4)
    return (
        _b(e["type"], 1) + _b(e["idx1"], 1) + _b(e["idx2"], 1) + _b((e["n1"] << 4) | e["n2"], 1)
        + _b(e["service"], 2) + _b(e["instance"], 2) + _b(e["major"], 1) + _b(e["ttl"], 3) + last
    )


def decode_entry(buf):
    if len(buf) < 16:
        raise WireError("incomplete", "entry")
    e = dict(
        type=buf[0], idx1=buf[1], idx2=buf[2], n1=buf[3] >> 4, n2=buf[3] & 0x0F,
        service=_u(buf[4:6]), instance=_u(buf[6:8]), major=buf[8], ttl=_u(buf[9:12]),
    )
    if e["type"] not in ENTRY_TYPES:
        raise WireError("invalid", "entry type")
    last = _u(buf[12:16])
    if e["type"] in (FIND, OFFER):
        e["minor"] = last
    else:
        if last >> 20:
            raise WireError("invalid", "reserved bits of eventgroup entry")
        e["counter"] = (last >> 16) & 0xF
        e["eventgroup"] = last & 0xFFFF
    return e


# --------------------------------------------------------------------------- SD message
def encode_sd(flags, entries_bytes, options_bytes, reserved=b"\x00\x00\x00", entries_len=None, options_len=None, tail=b""):
    if entries_len is None:
        entries_len = len(entries_bytes)
    if options_len is None:
        options_len = len(options_bytes)
    return (_b(flags, 1) + bytes(reserved) + _b(entries_len, 4) + bytes(entries_bytes)
            + _b(options_len, 4) + bytes(options_bytes) + bytes(tail))


def decode_sd(buf, strict_reserved=False):
    """returns dict(flags, reserved, entries, options, rest); raises WireError"""
    if len(buf) < 12:
        raise WireError("incomplete", "sd header")
    flags = buf[0]
    reserved = bytes(buf[1:4])
    elen = _u(buf[4:8])
    if len(buf) < 8 + elen + 4:
        raise WireError("invalid", "entries array overruns")
    ebuf = buf[8 : 8 + elen]
    olen = _u(buf[8 + elen : 12 + elen])
    obuf = buf[12 + elen : 12 + elen + olen]
    if len(obuf) < olen:
        raise WireError("invalid", "options array overruns")
    rest = bytes(buf[12 + elen + olen :])
    options = decode_options_array(obuf)
    entries = []
    pos = 0
    while pos < len(ebuf):
        e = decode_entry(ebuf[pos : pos + 16])
        if e["idx1"] + e["n1"] > len(options) or e["idx2"] + e["n2"] > len(options):
            raise WireError("invalid", "option index out of range")
        entries.append(e)
        pos += 16
    if strict_reserved and reserved != b"\x00\x00\x00":
        raise WireError("invalid", "reserved")
    return dict(flags=flags, reserved=reserved.hex(), entries=entries, options=options, rest=rest)


def sd_resolved(sd):
    """entries of a decoded SD message with their option runs resolved (lists of descs)"""
    out = []
    for e in sd["entries"]:
        r = dict(e)
        r["run1"] = sd["options"][e["idx1"] : e["idx1"] + e["n1"]]
        r["run2"] = sd["options"][e["idx2"] : e["idx2"] + e["n2"]]
        out.append(r)
    return out


def sd_datagram(session, flags, entries_bytes, options_bytes, client=0, **kw):
    """a complete SOME/IP datagram carrying one SD message"""
    payload = encode_sd(flags, entries_bytes, options_bytes, **kw)
    return encode_someip(SD_SERVICE, SD_METHOD, client, session, 1, 0x02, 0x00, payload)


def option_semantic(d):
    """the part of a decoded option description that carries meaning (no reserved bytes)"""
    k = d["k"]
    if k == "ip":
        return ("ip", d["type"], d["addr"], d["proto"], d["port"])
    if k == "lb":
        return ("lb", d["prio"], d["weight"])
    if k == "cfg":
        return ("cfg", tuple((a, b) for a, b in d["items"]))
    return ("unk", d["type"], d["data"])


class SDBuilder:
    """helper to assemble canonical SD datagrams from resolved entries (independent of
    the library): every run is appended to the options array, identical consecutive
    runs are not shared (legal, just not minimal)"""

    def __init__(self):
        self.entries = b""
        self.options = b""
        self.nopts = 0

    def _run(self, descs):
        if not descs:
            return 0, 0
        idx = self.nopts
        for d in descs:
            self.options += encode_option(d)
            self.nopts += 1
        return idx, len(descs)

    def add(self, etype, service, instance, major, ttl, minor=None, counter=0, eventgroup=0, run1=(), run2=()):
        i1, n1 = self._run(run1)
        i2, n2 = self._run(run2)
        e = dict(type=etype, idx1=i1, idx2=i2, n1=n1, n2=n2, service=service, instance=instance, major=major, ttl=ttl)
        if etype in (FIND, OFFER):
            e["minor"] = 0 if minor is None else minor
        else:
            e["counter"] = counter
            e["eventgroup"] = eventgroup
        self.entries += encode_entry(e)
        return self

    def datagram(self, session, reboot=True, unicast=True, extra_flags=0):
        flags = (0x80 if reboot else 0) | (0x40 if unicast else 0) | extra_flags
        return sd_datagram(session, flags, self.entries, self.options)
