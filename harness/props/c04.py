"""C04 - Two SD stacks converge: offers are discovered, subscriptions established."""
from __future__ import annotations

import collections

from hypothesis import strategies as st

from .. import hist
from ..engine import ok, require
from ..simkit import MCAST, ClientRec, FakeTransport, ServerRec, Sim, cfg, desc_semantic, ep_desc, hdr, install_random, sd, timings
from ..vloop import RES

PID = "C04"
RULE = (
    "cases = a timing configuration from the finite family (ANNOUNCE_TTL and SUBSCRIBE_TTL in 2..10 s, cyclic-offer and "
    "refresh periods strictly below them, 0..3 repetitions, small initial / request-response / collection delays) or the "
    "infinite family (both TTLs 0xFFFFFF, no refresh, cyclic offers on), given to both stacks and the service instance as one Timings object or as three objects whose role-foreign parameters differ (low: TTL 1 / period 0.25, high: 1000 / 300), drawn uniform fractions, and a script of 0..8 "
    "disturbances (graceful stop/start, crash/restart of either stack, open/close of a fault window in which every "
    "datagram is independently dropped, duplicated or delayed) placed by delay or relative to the pending timers of either "
    "stack (-4RES, -RES/4, +RES/4, +4RES, halfway) or in the same loop iteration as the previous one, on IPv4 or IPv6 addresses; both stacks run the unmodified library on one virtual-time loop and "
    "exchange real datagrams over a simulated network. non-trivial = a crash+restart or a stop/start placed relative to a "
    "pending timer, or a fault window in which a datagram was dropped/duplicated/delayed; distinct = distinct case JSON"
)
ASSUMPTIONS = [
    "the network does not loop a stack's own multicast back to it; unicast goes to the stack owning the address, multicast to every other attached stack",
    "crash = the stack's transport becomes a black hole, it is detached from the network and its tasks are cancelled; restart = a fresh protocol object on the same address",
    "a fault window ends when the last datagram it delayed has been delivered (reordering confined to a finite window)",
    "bound after the last disturbance: finite family max(TTLs) + max(cyclic, refresh) + slack; infinite family INITIAL_DELAY_MAX + 2 x cyclic + slack; slack = initial delay + request-response delay + collection timeout + repetition phase + 0.2 s (deliberately generous)",
    "infinite family with cyclic offers only: a restarted offerer is detected once per channel (C07), and the detection on the unicast channel (its first SubscribeAck) wipes the offer just learnt from its first multicast message (C05); only a further offer repairs that, so without cyclic offers no implementation that satisfies C05 and C07 converges",
    "infinite family (the statement's restriction): no fault windows, every crash is followed by a restart, and successive disturbances are at least one bound apart so that a (re)started peer has transmitted before it is disturbed again (a second crash of the stack just restarted is admitted as soon as that stack has sent one SD message) - otherwise per-channel reboot detection (C07) makes convergence impossible for any implementation",
]
BUDGET = {"quick": {"examples": 6400, "shrink": 150}, "thorough": {"examples": 200000, "shrink": 600}}
INF = 0xFFFFFF
NETS = {
    False: dict(O=("10.0.0.1", 30490), W=("10.0.0.2", 30490), mc=MCAST, wsock=("10.0.0.2", 5000)),
    True: dict(O=("2001:db8::1", 30490, 0, 0), W=("2001:db8::2", 30490, 0, 0), mc=("ff02::1:5", 30490, 0, 0), wsock=("2001:db8::2", 5000, 0, 0)),
}
SVC = (0x7000, 1, 1, 0)


def subkey(v6):
    ws = NETS[v6]["wsock"]
    return (0x7000, 1, 1, 1, 0, (desc_semantic(ep_desc(ws[0], ws[1], 17)),))

when_st = st.one_of(
    st.tuples(st.just("d"), st.sampled_from([0.0, 0.01, 0.1, 0.5, 1.0, 2.5, 5.0])).map(list),
    st.tuples(st.just("t"), st.integers(0, 5), st.sampled_from(["-4", "-q", "+q", "+4", "half"])).map(list),
    st.tuples(st.just("t"), st.integers(0, 5), st.sampled_from(["-4", "-q", "+q", "+4", "half"])).map(list),
    st.just(["s"]),   # in the same loop iteration as the previous disturbance (stop immediately followed by start)
)
fault_act = st.one_of(st.just(["ok"]), st.just(["drop"]), st.just(["drop"]), st.just(["dup"]), st.tuples(st.just("delay"), st.sampled_from([0.001, 0.05, 0.4, 1.5])).map(list))


@st.composite
def _case(draw, max_steps=8):
    fam = draw(st.sampled_from(["finite", "finite", "infinite"]))
    if fam == "finite":
        attl, sttl = draw(st.integers(2, 10)), draw(st.integers(2, 10))
        tm = dict(attl=attl, sttl=sttl, cyc=draw(st.sampled_from([0.5, 1.0, 1.5])) if attl > 2 else draw(st.sampled_from([0.5, 1.0])),
                  refresh=draw(st.sampled_from([0.5, 1.0, 1.5])) if sttl > 2 else draw(st.sampled_from([0.5, 1.0])))
    else:
        tm = dict(attl=INF, sttl=INF, cyc=draw(st.sampled_from([0.5, 1.0, 2.0])), refresh=None)
    tm.update(reps=draw(st.integers(0, 3)), base=draw(st.sampled_from([0.01, 0.05])), imax=draw(st.sampled_from([0, 0.01, 0.1])),
              rmax=draw(st.sampled_from([0.003, 0.02])), coll=draw(st.sampled_from([0, 0.005])))
    ops = ["stopO", "startO", "stopW", "startW", "crashO", "crashW", "restartO", "restartW"] + (["fault-on", "fault-on", "fault-on", "fault-off"] if fam == "finite" else [])
    steps = []
    for _ in range(draw(st.integers(0, max_steps))):
        steps.append({"op": draw(st.sampled_from(ops)), "when": draw(when_st)})
    return {"fam": fam, "tm": tm, "fr": draw(st.lists(st.sampled_from([0.0, 0.5, 1.0]), min_size=1, max_size=3)), "steps": steps,
            "faults": draw(st.lists(fault_act, min_size=1, max_size=8)), "v6": draw(st.sampled_from([False, False, True])),
            "decoy": draw(st.sampled_from([0, 0, 1, 1, 2]))}


def strategy(tier):
    return _case(16 if tier == "thorough" else 8)


ALPHA = ["stopO", "startO", "stopW", "startW", "crashO", "restartO", "crashW", "restartW", "T-q", "T+q", "+0.3", "+B", "same"]
ENUM_LEN = {"quick": 3, "thorough": 4}
ENUM_TM = {"finite": dict(attl=3, sttl=3, cyc=1.0, refresh=1.0, reps=1, base=0.05, imax=0.1, rmax=0.02, coll=0.005),
           "infinite": dict(attl=INF, sttl=INF, cyc=1.0, refresh=None, reps=1, base=0.05, imax=0.1, rmax=0.02, coll=0.005)}
EXHAUSTIVE = {"quick": "all 13^3 = 2197 disturbance scripts of length 3 over {graceful stop/start, crash/restart of either side} x timing prefixes {next pending timer -RES/4, +RES/4, +0.3 s, one convergence bound, same loop iteration}, finite and infinite family",
              "thorough": "all 13^4 = 28561 disturbance scripts of length 4 over the same alphabet, finite and infinite family"}


def enum_size(tier):
    return 2 * len(ALPHA) ** ENUM_LEN[tier]


def enum_case(tier, idx):
    idx, fi = divmod(idx, 2)
    fam = ("finite", "infinite")[fi]
    steps = [{"op": "wait", "when": ["d", 1.3]}]
    when = ["d", 0.05]
    for _ in range(ENUM_LEN[tier]):
        idx, r = divmod(idx, len(ALPHA))
        a = ALPHA[r]
        if a in ("T-q", "T+q", "+0.3", "+B", "same"):
            when = {"T-q": ["t", 0, "-q"], "T+q": ["t", 0, "+q"], "+0.3": ["d", 0.3], "+B": ["d", 3.6], "same": ["s"]}[a]
            continue
        steps.append({"op": a, "when": when})
        when = ["d", 0.05]
    return {"fam": fam, "tm": ENUM_TM[fam], "fr": [0.5], "steps": steps, "faults": [["ok"]], "v6": False}


def fixed_cases(tier):
    """deterministic sweep: each single disturbance kind x each side x the first pending timers of the fault-free run x offsets"""
    out = []
    fin = dict(attl=3, sttl=3, cyc=1.0, refresh=1.0, reps=2, base=0.05, imax=0.1, rmax=0.02, coll=0.005)
    inf = dict(fin, attl=INF, sttl=INF, refresh=None)
    for fam, tm in (("finite", fin), ("infinite", inf)):
        for pre in (0.05, 0.3, 1.2, 2.6):
            for k in (0, 1, 2):
                for off in (("-4", "-q", "+q", "+4") if tier == "thorough" or k == 0 else ("-q", "+q")):
                    for kind in ("stop", "crash"):
                        for side in "OW":
                            first = {"op": "wait", "when": ["d", pre]}
                            a = {"op": kind + side, "when": ["t", k, off]}
                            b = {"op": ("start" if kind == "stop" else "restart") + side, "when": ["d", 0.3] if fam == "finite" else ["d", 8.0]}
                            out.append({"fam": fam, "tm": tm, "fr": [0.5], "steps": [first, a, b], "faults": [["ok"]], "v6": (k + len(out)) % 3 == 0})
    if tier == "thorough":
        # pairs of disturbances on both sides, each placed around a pending timer (finite family: no spacing restriction)
        for pre in (0.3, 1.2):
            for k1 in (0, 1):
                for off1 in ("-q", "+q"):
                    for kind1 in ("stop", "crash"):
                        for s1 in "OW":
                            for k2 in (0, 1):
                                for off2 in ("-q", "+q"):
                                    for kind2 in ("stop", "crash"):
                                        s2 = "W" if s1 == "O" else "O"
                                        steps = [{"op": "wait", "when": ["d", pre]}, {"op": kind1 + s1, "when": ["t", k1, off1]},
                                                 {"op": kind2 + s2, "when": ["t", k2, off2]},
                                                 {"op": ("start" if kind1 == "stop" else "restart") + s1, "when": ["d", 0.3]},
                                                 {"op": ("start" if kind2 == "stop" else "restart") + s2, "when": ["t", 0, off1]}]
                                        out.append({"fam": "finite", "tm": fin, "fr": [0.5], "steps": steps, "faults": [["ok"]], "v6": (k1 + k2) % 2 == 1})
    # a stop immediately followed by a start (same loop iteration), then - later - another stop, a stop/start pair or nothing
    for fam, tm in (("finite", fin), ("infinite", inf)):
        for side in "OW":
            for tail in ([], [{"op": "stop" + side, "when": ["d", 0.7]}], [{"op": "stop" + side, "when": ["d", 0.7]}, {"op": "start" + side, "when": ["s"]}],
                         [{"op": "stop" + side, "when": ["d", 0.7]}, {"op": "start" + side, "when": ["d", 4.5]}]):
                for pre in (0.05, 1.3):
                    out.append({"fam": fam, "tm": tm, "fr": [0.5], "faults": [["ok"]], "v6": side == "W",
                                "steps": [{"op": "wait", "when": ["d", pre]}, {"op": "stop" + side, "when": ["d", 0.05]}, {"op": "start" + side, "when": ["s"]}] + tail})
    # infinite family: a restarted stack crashes again after it has sent its first message(s), around each of its timers
    for side in "OW":
        for pre in (1.3, 3.0):
            for k in range(5):
                for off in ("+q", "+4"):
                    # k timers of the restarted stack (first offer, its transmission, the repetitions, ...) pass before it crashes again
                    out.append({"fam": "infinite", "tm": inf, "fr": [0.5], "faults": [["ok"]], "v6": k % 2 == 1,
                                "steps": [{"op": "wait", "when": ["d", pre]}, {"op": "crash" + side, "when": ["d", 0.1]}, {"op": "restart" + side, "when": ["d", 0.3]}]
                                         + [{"op": "wait", "when": ["t", 0, "+q"]}] * k
                                         + [{"op": "crash" + side, "when": ["t", 0, off]}, {"op": "restart" + side, "when": ["d", 0.3]}]})
    # D2: a restarted watcher's first Subscribe carries the reboot evidence (infinite TTL: nothing heals it later)
    out.append({"fam": "infinite", "tm": inf, "fr": [0.5], "steps": [{"op": "wait", "when": ["d", 3.0]}, {"op": "crashW", "when": ["d", 0.1]}, {"op": "restartW", "when": ["d", 0.5]}], "faults": [["ok"]]})
    out.append({"fam": "infinite", "tm": inf, "fr": [0.5], "steps": [{"op": "wait", "when": ["d", 3.0]}, {"op": "crashO", "when": ["d", 0.1]}, {"op": "restartO", "when": ["d", 0.5]}], "faults": [["ok"]]})
    # D11: graceful stop while the answer to the watcher's FindService still waits in the unicast send collector
    for k in range(4):
        out.append({"fam": "infinite", "tm": dict(inf, imax=0.01, reps=0, rmax=0.01), "fr": [0.0], "steps": [{"op": "stopO", "when": ["t", k, "-4"]}], "faults": [["ok"]]})
    out.append({"fam": "finite", "tm": fin, "fr": [0.5], "steps": [{"op": "wait", "when": ["d", 2.0]}, {"op": "fault-on", "when": ["d", 0.1]}, {"op": "wait", "when": ["d", 4.0]}, {"op": "fault-off", "when": ["d", 0.1]}],
                "faults": [["delay", 1.5], ["drop"], ["dup"], ["ok"], ["delay", 0.4]]})
    return out


class Stack:
    def __init__(self, net, role, tm, tm_inst=None):
        self.net, self.role = net, role
        self.addr = net.cfg[role]
        self.log = []
        self.prot = sd.ServiceDiscoveryProtocol(net.cfg["mc"], timings=tm)
        self.transport = FakeTransport(net.sim, self.addr, on_send=lambda t, dest, data: net.send(self, dest, data))
        self.prot.transport = self.transport
        self.attached = True
        self.started = False
        self.sent_any = False
        if role == "O":
            self.instance = sd.ServiceInstance(cfg.Service(*SVC, eventgroups=frozenset({1})), ServerRec(net.sim, self.log, "O"), self.prot.announcer, tm_inst or tm)
            self.prot.announcer.announce_service(self.instance)
        else:
            self.prot.discovery.find_subscribe_eventgroup(cfg.Eventgroup(0x7000, 0xFFFF, 0xFF, 1, net.cfg["wsock"], hdr.L4Protocols.UDP))
            self.prot.discovery.watch_service(cfg.Service(0x7000), ClientRec(net.sim, self.log, "W"))

    def start(self):
        self.started = True
        self.prot.start()

    def stop(self):
        self.started = False
        self.prot.stop()

    def crash(self):
        self.attached = False
        self.started = False
        self.transport.blackhole = True
        tasks = [getattr(self.prot.discovery, "task", None), getattr(self.prot.subscriber, "task", None)]
        if self.role == "O":
            tasks.append(getattr(self.instance, "_task", None))
        for t in tasks:
            if t is not None and not t.done():
                t.cancel()


class Net:
    def __init__(self, sim, faults, v6=False):
        self.sim = sim
        self.cfg = NETS[bool(v6)]
        self.stacks = {}
        self.fault = False
        self.faults = faults or [["ok"]]
        self.fi = 0
        self.stats = collections.Counter()
        self.last_delayed_delivery = 0.0

    def send(self, sender, dest, data):
        if not sender.attached:
            return
        sender.sent_any = True
        if dest == self.cfg["mc"]:
            targets = [(s, True) for a, s in self.stacks.items() if s is not sender and s.attached]
        else:
            s = self.stacks.get(dest)
            targets = [(s, False)] if s is not None and s.attached else []
        loop = self.sim.loop
        for s, mc in targets:
            act = ["ok"]
            if self.fault:
                act = self.faults[self.fi % len(self.faults)]
                self.fi += 1
            self.stats[act[0]] += 1
            if act[0] == "drop":
                continue
            for _ in range(2 if act[0] == "dup" else 1):
                if act[0] == "delay":
                    self.last_delayed_delivery = max(self.last_delayed_delivery, self.sim.now + act[1])
                    loop.call_later(act[1], self.deliver, s, data, sender.addr, mc)
                else:
                    loop.call_soon(self.deliver, s, data, sender.addr, mc)

    def deliver(self, stack, data, sender_addr, mc):
        if stack.attached:
            stack.prot.datagram_received(data, sender_addr, mc)


def run_case(case):
    fam = case.get("fam", "finite")
    t = dict(case["tm"])
    if fam == "infinite":
        t.update(attl=INF, sttl=INF, refresh=None)
        t["cyc"] = t.get("cyc") or 1.0   # cyclic offers stay on in the infinite family (see ASSUMPTIONS)
    else:
        t["attl"] = max(2, min(10, t["attl"] if t["attl"] != INF else 3))
        t["sttl"] = max(2, min(10, t["sttl"] if t["sttl"] != INF else 3))
        t["cyc"] = min(t["cyc"] or 1.0, t["attl"] - 0.5)
        t["refresh"] = min(t["refresh"] or 1.0, t["sttl"] - 0.5)
    rep_total = sum(t["base"] * 2 ** i for i in range(t["reps"]))
    slack = t["imax"] + t["rmax"] + t["coll"] + rep_total + 0.2
    if fam == "finite":
        bound = max(t["attl"], t["sttl"]) + max(t["cyc"], t["refresh"]) + slack
    else:
        bound = t["imax"] + 2 * t["cyc"] + slack
    feats = collections.Counter()
    with Sim() as sim:
        install_random(case.get("fr") or [0.5])
        def mk(**over):
            kw = dict(INITIAL_DELAY_MIN=0, INITIAL_DELAY_MAX=t["imax"], REQUEST_RESPONSE_DELAY_MIN=0, REQUEST_RESPONSE_DELAY_MAX=t["rmax"],
                      REPETITIONS_MAX=t["reps"], REPETITIONS_BASE_DELAY=t["base"], CYCLIC_OFFER_DELAY=t["cyc"], FIND_TTL=3,
                      ANNOUNCE_TTL=t["attl"], SUBSCRIBE_TTL=t["sttl"], SUBSCRIBE_REFRESH_INTERVAL=t["refresh"], SEND_COLLECTION_TIMEOUT=t["coll"])
            kw.update(over)
            return timings(**kw)

        tm = mk()
        decoy = case.get("decoy") or 0
        if decoy:
            # separate Timings objects for the offering stack, its service instance and the watching stack (the API takes
            # one per protocol object and one per ServiceInstance).  The parameters that govern a role are the case's;
            # the ones that belong to the *other* roles - an offering stack's subscribe TTL, a watcher's announce TTL, a
            # protocol object's announce TTL when the instance has its own - get unrelated, self-consistent values.
            ttl_, per_ = (1, 0.25) if decoy == 1 else (1000, 300.0)
            offer_decoy = dict(ANNOUNCE_TTL=ttl_, CYCLIC_OFFER_DELAY=per_)
            sub_decoy = dict(SUBSCRIBE_TTL=ttl_, SUBSCRIBE_REFRESH_INTERVAL=per_)
            tms = {"O": mk(**offer_decoy, **sub_decoy), "I": mk(**sub_decoy), "W": mk(**offer_decoy)}
        else:
            tms = {"O": tm, "I": tm, "W": tm}
        v6 = bool(case.get("v6"))
        O_ADDR, W_ADDR, SUBKEY = NETS[v6]["O"], NETS[v6]["W"], subkey(v6)
        net = Net(sim, case.get("faults"), v6)
        st_ = {}
        for role in "OW":
            st_[role] = Stack(net, role, tms[role], tms["I"])
            net.stacks[st_[role].addr] = st_[role]
            st_[role].start()
        exists = {"O": True, "W": True}
        last_disturbance = [0.0]

        def execute(k, s):
            op = s["op"]
            if op == "wait":
                return
            if op in ("fault-on", "fault-off"):
                if fam == "infinite":
                    return
                net.fault = op == "fault-on"
                last_disturbance[0] = sim.now
                return
            kind, role = op[:-1], op[-1]
            S = st_[role]
            if fam == "infinite" and kind != "restart":
                # spacing restriction of the infinite family (see ASSUMPTIONS); the restart that follows a crash is exempt, and
                # so is a second crash of the stack that was just restarted once it has sent at least one SD message (the
                # statement's own condition on restarts)
                again = kind == "crash" and last_op[0] == ("restart", role) and exists[role] and S.sent_any
                if sim.now - last_disturbance[0] < bound and last_disturbance[0] > 0 and not again:
                    return
            if kind == "stop":
                if not exists[role] or not S.started:
                    return
                S.stop()
            elif kind == "start":
                if not exists[role] or S.started:
                    return
                S.start()
            elif kind == "crash":
                if not exists[role]:
                    return
                exists[role] = False
                S.crash()
                feats["crash"] += 1
                if fam == "infinite":
                    pending_restart.append(role)
            elif kind == "restart":
                if exists[role]:
                    return
                new = Stack(net, role, tms[role], tms["I"])
                st_[role] = new
                net.stacks[new.addr] = new
                exists[role] = True
                new.start()
                if role in pending_restart:
                    pending_restart.remove(role)
            w = s.get("when", ["d", 0])
            if w[0] == "t":
                feats["rel-to-timer"] += 1
            last_disturbance[0] = sim.now
            last_op[0] = (kind, role)

        pending_restart = []
        last_op = [None]
        sim.advance(0.001)
        hist.drive(sim, case["steps"], execute)
        net.fault = False
        if fam == "infinite":
            # every crash is followed by a restart
            for role in list(pending_restart):
                sim.advance(0.5)
                execute(-1, {"op": "restart" + role, "when": ["d", 0.5]})
        if net.stats["drop"] + net.stats["dup"] + net.stats["delay"]:
            feats["faulted-datagrams"] += 1
        # the reordering window ends when its last delayed datagram has been delivered
        if net.last_delayed_delivery > sim.now:
            sim.run_until(net.last_delayed_delivery + 4 * RES)
        t_last = sim.now

        def verdict(tag):
            O, Wk = st_["O"], st_["W"]
            offering = exists["O"] and O.started
            if exists["W"]:
                calls = [c for c in Wk.log if c[3] == SVC and c[4] == O_ADDR]
                latest = calls[-1][2] if calls else None
                require((latest == "offered") == offering, "C04.watcher-view",
                        lambda: f"{tag} (t={sim.now:.3f}, last disturbance {t_last:.3f}, bound {bound:.3f}, family {fam}): the offering stack is {'offering' if offering else 'not offering'} "
                                f"(exists={exists['O']}, started={O.started}) but the watcher's listener's latest notification is {latest!r}; its calls {[(round(c[0], 3), c[2]) for c in calls][-6:]}")
            if exists["O"]:
                calls = [c for c in O.log if c[3] == SUBKEY and c[4] == W_ADDR and c[2] != "rejected"]
                latest = calls[-1][2] if calls else None
                want = offering and exists["W"] and Wk.started
                require((latest == "subscribed") == want, "C04.offerer-view",
                        lambda: f"{tag} (t={sim.now:.3f}, last disturbance {t_last:.3f}, bound {bound:.3f}, family {fam}): service offered={offering}, watcher exists={exists['W']} running={Wk.started}, "
                                f"but the offering stack's listener's latest notification for the watcher is {latest!r}; its calls {[(round(c[0], 3), c[2]) for c in calls][-6:]}")

        sim.advance(bound)
        verdict("after one bound")
        # stability: with no further disturbance the state must hold at every idle point of the following bound, not
        # only at its end (a stale timer that makes the subscription flap would otherwise be missed between samples)
        hook = lambda: verdict("stability, one to two bounds after the last disturbance")  # noqa: E731
        sim.idle_hooks.append(hook)
        sim.advance(bound)
        sim.idle_hooks.remove(hook)
        verdict("after two bounds (stability)")
        require(not sim.loop.errors, "C04.loop-error", lambda: str(sim.loop.errors[:2]))
        require(not sim.loop.task_errors(), "C04.loop-error", lambda: str(sim.loop.task_errors()[:2]))
    nontrivial = bool(feats["faulted-datagrams"] or (feats["rel-to-timer"] and (feats["crash"] or True)) or feats["crash"])
    return ok(nontrivial, [f"family={fam}", f"ipv6={int(v6)}"] + [f"{k}={'1+' if v else 0}" for k, v in sorted(feats.items())])
