"""C09 - TTL expiry fires exactly once, on time, never early; a refresh postpones it."""
from __future__ import annotations

import logging

from hypothesis import strategies as st

from .. import hist
from ..engine import ok, require
from ..simkit import ADDRS, ClientRec, ServerRec, Sim, cfg, make_sd, sd, sd_bytes, timings
from ..ttlmodel import TTLModel
from ..vloop import RES
from .c07 import ref_detect

PID = "C09"
RULE = (
    "histories of add / refresh / stop / remove-all-for-address / remove-all / re-add / add refused by the 'new' callback over 2 addresses x 3 keys with TTLs "
    "from {1,2,3,0xFFFFFE,inf}, objects constructed inside the running loop or before it runs, executed (a) on TimedStore directly, (b) as offer / stop-offer / reboot-revealing datagrams "
    "and connection loss through ServiceDiscover (observed through watch-all or through wildcard filters next to exact filters of a second listener that are withdrawn on the way), (c) as Subscribe / StopSubscribe datagrams and service stop/start through "
    "ServiceInstance; steps timed by delays from {0.25,0.5,1,2,3,1e6,2e7} or relative to the pending expiry timer with "
    "offsets -4RES/-RES/4/+RES/4/+4RES/halfway; every history is run past 0xFFFFFF virtual seconds. exhaustive: all "
    "histories of bounded length over a 9-letter alphabet for modes (a) and (b). non-trivial = a refresh with a different "
    "TTL class, or a step within 4 RES of a deadline, or a re-add after stop/remove-all; distinct = distinct case JSON"
)
ASSUMPTIONS = [
    "reference model: deadline = time of the last add/refresh + ttl, none for 0xFFFFFF; an expiry notification must come within RES of the deadline (asyncio runs timers due within its clock resolution)",
    "a refresh within RES of the deadline is simultaneous: 'expired, then present again' and 'no notification' are both accepted; at >= 4 RES before the deadline the refresh must win",
    "TimedStore reports explicit removals through the same callback as expiries; the model predicts every callback, so an expiry notification after a removal, or a second one, is an unexplained call",
]
BUDGET = {"quick": {"examples": 8000, "shrink": 300}, "thorough": {"examples": 480000, "shrink": 2000}}
ENUM_LEN = {"quick": 5, "thorough": 6}
EXHAUSTIVE = {"quick": "all 9^5 = 59049 histories of length 5 over {add ttl 1, add ttl 2, add infinite, stop, remove-all-for-address, T-RES/4, T+RES/4, T-4RES, +0.5 s} in modes store and discover",
              "thorough": "all 9^6 = 531441 histories of length 6 over the same alphabet in modes store, discover and instance"}
INF = 0xFFFFFF
MODES = ["store", "discover", "instance"]
ALPHA = ["a1", "a2", "ainf", "stop", "rmaddr", "T-q", "T+q", "T-4", "+0.5"]
SVC = [(0x1000, 1, 1, 0), (0x1000, 2, 1, 0), (0x2000, 1, 2, 5)]


ENUM_MODES = {"quick": 2, "thorough": 3}


def enum_size(tier):
    return ENUM_MODES[tier] * len(ALPHA) ** ENUM_LEN[tier]


def enum_case(tier, idx):
    idx, mode = divmod(idx, ENUM_MODES[tier])
    steps = []
    when = ["d", 0.25]
    for _ in range(ENUM_LEN[tier]):
        idx, r = divmod(idx, len(ALPHA))
        a = ALPHA[r]
        if a in ("T-q", "T+q", "T-4", "+0.5"):
            when = {"T-q": ["t", 0, "-q"], "T+q": ["t", 0, "+q"], "T-4": ["t", 0, "-4"], "+0.5": ["d", 0.5]}[a]
            continue
        if a in ("a1", "a2", "ainf"):
            steps.append({"op": "add", "a": 0, "k": 0, "ttl": {"a1": 1, "a2": 2, "ainf": INF}[a], "when": when})
        elif a == "stop":
            steps.append({"op": "stop", "a": 0, "k": 0, "when": when})
        else:
            steps.append({"op": "rmaddr", "a": 0, "when": when})
        when = ["d", 0.25]
    # give reboot evidence a predecessor: one message of that address first (modes discover/instance)
    return {"mode": MODES[mode], "steps": steps}


when_st = st.one_of(
    st.tuples(st.just("d"), st.sampled_from([0.25, 0.5, 1.0, 2.0, 3.0, 1e6, 2e7])).map(list),
    st.tuples(st.just("d"), st.sampled_from([0.25, 0.5, 1.0])).map(list),
    st.tuples(st.just("t"), st.integers(0, 2), st.sampled_from(["-4", "-q", "+q", "+4", "half"])).map(list),
    st.just(["s"]),
)


@st.composite
def _step(draw):
    op = draw(st.sampled_from(["add"] * 6 + ["stop", "stop", "rmaddr", "rmall", "rmmatch", "unwatch-extra"]))
    s = {"op": op, "when": draw(when_st), "a": draw(st.integers(0, 1)), "k": draw(st.integers(0, 2))}
    if op == "add":
        s["ttl"] = draw(st.sampled_from([1, 1, 2, 3, 0xFFFFFE, INF]))
        if draw(st.integers(0, 5)) == 0:
            s["reject"] = True   # if this add creates the record, the 'new' callback refuses it (NakSubscription)
    return s


def strategy(tier):
    # outside: the objects are constructed before the loop runs (another loop is the thread's current one then)
    return st.builds(lambda m, steps, o, f: {"mode": m, "steps": steps, "outside": o, "filters": f}, st.sampled_from(MODES), st.lists(_step(), min_size=1, max_size=12),
                     st.sampled_from([False, False, True]), st.booleans())


def fixed_cases(tier):
    out = []
    for mode in MODES:
        A = lambda ttl, when=None: {"op": "add", "a": 0, "k": 0, "ttl": ttl, "when": when or ["d", 0.25]}  # noqa: E731
        out += [
            {"mode": mode, "steps": [A(2), A(INF, ["d", 1.0])]},            # finite -> infinite: the old timer must die
            {"mode": mode, "steps": [A(INF), A(1, ["d", 1.0])]},            # infinite -> finite
            {"mode": mode, "steps": [A(3), A(1, ["d", 0.5])]},              # shorter replaces longer
            {"mode": mode, "steps": [A(1), {"op": "stop", "a": 0, "k": 0, "when": ["d", 0.5]}, A(3, ["d", 0.25])]},  # stale timer of a stopped entry
            {"mode": mode, "steps": [A(1), {"op": "rmaddr", "a": 0, "when": ["d", 0.5]}, A(3, ["d", 0.25])]},
            {"mode": mode, "steps": [A(0xFFFFFE), A(INF, ["d", 1e6])]},
            {"mode": mode, "steps": [A(INF)]},                               # an infinite entry must survive 0xFFFFFF s
            {"mode": mode, "steps": [A(1), A(1, ["t", 0, "-4"]), A(1, ["t", 0, "-q"]), A(1, ["t", 0, "+q"])]},
            {"mode": mode, "steps": [dict(A(1), reject=True), A(3, ["d", 0.5])]},     # a refused add leaves no timer behind
            {"mode": mode, "outside": True, "steps": [A(1), A(2, ["d", 0.5])]},
        ]
    return out


class _Backend:
    def __init__(self, sim, log):
        self.sim, self.log = sim, log

    def barrier(self, step):
        return False

    def start(self):
        pass


class StoreBackend(_Backend):
    def __init__(self, sim, log):
        super().__init__(sim, log)
        self.reject = False
        self.store = sd.TimedStore(logging.getLogger("someip.verif"))

    def _new(self, key, addr):
        if self.reject:
            self.log.append((self.sim.now, "rejected", (addr, key)))
            raise sd.NakSubscription
        self.log.append((self.sim.now, "new", (addr, key)))

    def _exp(self, key, addr):
        self.log.append((self.sim.now, "expired", (addr, key)))

    def add(self, a, k, ttl, reject=False):
        self.reject = reject
        try:
            self.store.refresh(ttl, ADDRS[a], k, self._new, self._exp)
        except sd.NakSubscription:
            # the refusal of the 'new' callback propagates to the caller of refresh(), as ServiceInstance relies on
            if not reject:
                raise
        finally:
            self.reject = False
        return False

    def stop(self, a, k):
        self.store.stop(ADDRS[a], k)

    def rmaddr(self, a):
        self.store.stop_all_for_address(ADDRS[a])
        return True

    def rmall(self):
        self.store.stop_all()

    def rmmatch(self, k):
        self.store.stop_all_matching(lambda key: key == k)

    def pair(self, a, k):
        return (ADDRS[a], k)


class _SDBackend(_Backend):
    def __init__(self, sim, log):
        super().__init__(sim, log)
        self.sess = {}
        self.sessions = {}

    def _next(self, a, reset=False):
        k = (ADDRS[a], False)
        flag, sid = self.sess.get(k, (True, 0))
        flag, sid = (True, 1) if reset else ((flag, sid + 1) if sid < 0xFFFF else (False, 1))
        self.sess[k] = (flag, sid)
        return flag, sid, ref_detect(self.sessions, k, flag, sid)

    def _send(self, a, entries, reset=False):
        flag, sid, reboot = self._next(a, reset)
        self.prot.datagram_received(sd_bytes(entries, sid, reboot=flag), ADDRS[a], False)
        return reboot

    def rmaddr(self, a):
        # reboot evidence only (no entries of interest); it removes only if the address was heard before
        return self._send(a, [{"t": "find", "svc": 0x7777}], reset=True)


class DiscoverBackend(_SDBackend):
    def __init__(self, sim, log):
        super().__init__(sim, log)
        self.prot = make_sd(sim)
        self.raw = []
        self.pos = 0
        self.filters = False

    def start(self):
        L = ClientRec(self.sim, self.raw, "L")
        if not self.filters:
            self.prot.discovery.watch_all_services(L)
            return
        # filters instead of watch-all: one wildcard filter per service id for the observed listener, plus exact filters of
        # another listener on the same service ids, which may be withdrawn during the history
        for sid in sorted(set(s[0] for s in SVC)):
            self.prot.discovery.watch_service(cfg.Service(sid), L)
        self.extra = ClientRec(self.sim, [], "M")
        self.extra_on = set()
        for k in (0, 2):
            self.prot.discovery.watch_service(cfg.Service(*SVC[k]), self.extra)
            self.extra_on.add(k)

    def unwatch_extra(self, k):
        k = 0 if k % 3 != 2 else 2
        if self.filters and k in self.extra_on:
            self.extra_on.discard(k)
            self.prot.discovery.stop_watch_service(cfg.Service(*SVC[k]), self.extra)

    def sync(self):
        for t, _, kind, key, src in self.raw[self.pos:]:
            self.log.append((t, "new" if kind == "offered" else "expired", (src, key)))
        self.pos = len(self.raw)

    def _e(self, k, t, ttl=0):
        s = SVC[k]
        return {"t": t, "svc": s[0], "inst": s[1], "major": s[2], "minor": s[3], "ttl": ttl}

    def add(self, a, k, ttl, reject=False):
        return self._send(a, [self._e(k, "offer", ttl)])

    def stop(self, a, k):
        return self._send(a, [self._e(k, "stop")])

    def rmall(self):
        self.prot.connection_lost(None)

    def rmmatch(self, k):
        for a in range(2):
            self._send(a, [self._e(k, "stop")])

    def pair(self, a, k):
        return (ADDRS[a], SVC[k])

    def barrier(self, step):
        return step["op"] == "rmall"


class InstanceBackend(_SDBackend):
    def __init__(self, sim, log):
        super().__init__(sim, log)
        tm = timings(CYCLIC_OFFER_DELAY=0, ANNOUNCE_TTL=INF, SEND_COLLECTION_TIMEOUT=0)
        self.prot = make_sd(sim, tm)
        self.raw = []
        self.reject = False
        self.inst = sd.ServiceInstance(cfg.Service(0x3000, 1, 1, 0, eventgroups=frozenset({1, 2, 3})),
                                       ServerRec(sim, self.raw, "S", lambda sub, src: not self.reject), self.prot.announcer, tm)
        self.pos = 0

    def start(self):
        self.prot.announcer.announce_service(self.inst)
        self.prot.announcer.start()

    def sync(self):
        for t, _, kind, key, src, ttl in self.raw[self.pos:]:
            self.log.append((t, {"subscribed": "new", "rejected": "rejected"}.get(kind, "expired"), (src, key[3])))
        self.pos = len(self.raw)

    def _e(self, k, t, ttl=0):
        return {"t": t, "svc": 0x3000, "inst": 1, "major": 1, "eg": k + 1, "ttl": ttl, "eps": [["10.0.0.9", 4000, 17]]}

    def add(self, a, k, ttl, reject=False):
        # the datagram's entries are handled in a later loop iteration: the decision stays in force until the next step
        # (a refusing add is a group of its own, see barrier)
        self.reject = reject
        return self._send(a, [self._e(k, "sub", ttl)])

    def stop(self, a, k):
        return self._send(a, [self._e(k, "stopsub")])

    def rmall(self):
        self.prot.announcer.stop()
        self.prot.announcer.start()

    def rmmatch(self, k):
        for a in range(2):
            self._send(a, [self._e(k, "stopsub")])

    def pair(self, a, k):
        return (ADDRS[a], k + 1)

    def barrier(self, step):
        # a lifecycle call sharing an iteration with (deferred) datagram handling is order-ambiguous: own group
        return step["op"] == "rmall" or (step["op"] == "add" and bool(step.get("reject")))


BACKENDS = {"store": StoreBackend, "discover": DiscoverBackend, "instance": InstanceBackend}


def run_case(case):
    mode = case.get("mode", "store")
    steps = case["steps"]
    log = []
    feats = {"ttlclass": False, "near": False, "readd": False}
    with Sim() as sim:
        if case.get("outside"):
            with sim.outside():
                be = BACKENDS[mode](sim, log)
        else:
            be = BACKENDS[mode](sim, log)
        if mode == "discover":
            be.filters = bool(case.get("filters"))
        be.start()
        sim.advance(0.05)
        model = TTLModel("C09", {"new": True, "rejected": False}, optional_new=False)
        live = model.live
        lastttl = {}
        removed = set()
        seen = [0]
        events = []

        def check_idle():
            now = sim.now
            if hasattr(be, "sync"):
                be.sync()
            for t, kind, p in log[seen[0]:]:
                model.record(t, kind, p)
            seen[0] = len(log)
            before = set(model.live)
            model.explain(events, now)
            del events[:]
            removed.update(before - set(model.live))

        def execute(i, s):
            op, now = s["op"], sim.now
            a, k = s.get("a", 0) % 2, s.get("k", 0) % 3
            be.reject = False
            if op == "add":
                ttl = s.get("ttl", 1)
                ttl = ttl if ttl in (1, 2, 3, 0xFFFFFE, INF) else 1
                p = be.pair(a, k)
                if p in lastttl and lastttl[p] != ttl and p in model.live:
                    feats["ttlclass"] = True
                if p in removed:
                    feats["readd"] = True
                lastttl[p] = ttl
                if be.add(a, k, ttl, bool(s.get("reject")) and mode != "discover"):
                    events.append(("end", lambda q, _a=ADDRS[a]: q[0] == _a, "reboot of the sender"))
                events.append(("add", p, None if ttl == INF else now + ttl, now))
            elif op == "stop":
                if be.stop(a, k):
                    events.append(("end", lambda q, _a=ADDRS[a]: q[0] == _a, "reboot of the sender"))
                events.append(("end", lambda q, _p=be.pair(a, k): q == _p, "explicit stop"))
            elif op == "rmaddr":
                if be.rmaddr(a):
                    events.append(("end", lambda q, _a=ADDRS[a]: q[0] == _a, "remove-all-for-address"))
            elif op == "unwatch-extra":
                if mode == "discover":
                    be.unwatch_extra(k)
            elif op == "rmall":
                be.rmall()
                events.append(("end", lambda q: True, "remove-all"))
            elif op == "rmmatch":
                be.rmmatch(k)
                for aa in range(2):
                    events.append(("end", lambda q, _p=be.pair(aa, k): q == _p, "explicit stop"))

        sim.idle_hooks.append(check_idle)
        for s in steps:
            w = s.get("when", ["d", 0.25])
            if w[0] == "t" and w[2] in ("-q", "+q", "-4", "+4"):
                feats["near"] = True
        hist.drive(sim, steps, execute, barrier=be.barrier)
        sim.advance(4.0)
        check_idle()
        # run past 0xFFFFFF seconds: the 0xFFFFFE class expires on time, infinite entries never do
        sim.advance(float(0x1000000))
        sim.advance(10.0)
        check_idle()
        for p, d in model.live.items():
            require(d is None, "C09.model", f"finite entry {p} left in the model")
        require(not sim.loop.errors, "C09.loop-error", lambda: str(sim.loop.errors[:2]))
    nontrivial = (feats["ttlclass"] or feats["near"] or feats["readd"]) and bool(log)
    return ok(nontrivial, [f"mode={mode}", f"ttl-class-change={int(feats['ttlclass'])}", f"near-deadline={int(feats['near'])}", f"re-add={int(feats['readd'])}"])
