"""C13 - FindService is sent only for watched services not yet found, bounded in number."""
from __future__ import annotations

import collections

from hypothesis import strategies as st

from .. import hist, wire
from ..engine import ok, require
from ..simkit import ADDRS, MCAST, ClientRec, Sim, cfg, install_random, late, make_sd, sd_bytes, sent_entries, timings
from ..vloop import RES
from .c19 import ref_match

PID = "C13"
RULE = (
    "exhaustive: every script of bounded length over {offer A ttl 1 / infinite, stop-offer A, offer B} x timing prefixes relative to the next library timer (find round or TTL deadline) for two watched filters; random: cases = 1..4 watched filters (wildcards in instance/major/minor) registered before start, a timing configuration "
    "(initial-delay window from {0,0.01,0.1,1}, 0..4 repetitions, base delay from {0.01,0.05,0.2}, find TTL), a drawn "
    "initial-delay fraction, timings passed to the constructor or assigned to the protocol object's Timings afterwards, and a script of offers (TTL 1/3/infinite), stop-offers (each with no or one of two endpoint options) and waits from 2 sources for services "
    "matching any subset of the filters (or none), each step placed by delay or relative to pending library timers (the "
    "find task's next round and TTL deadlines: -4RES, -RES/4, +RES/4, +4RES, halfway). non-trivial = an offer within "
    "4 RES of a round, or a partial subset found at a round, or an expiry / stop-offer between rounds; distinct = distinct case JSON"
)
ASSUMPTIONS = [
    "round instants are checked reactively: first = start + drawn initial delay, next = previous + base*2^i",
    "a filter counts as found at a round iff a matching offer is live there; an offer that arrives, expires or is withdrawn within RES of the round instant is simultaneous (both outcomes accepted for the filters it matches)",
    "filters are registered before start and never removed (quantifier)",
]
BUDGET = {"quick": {"examples": 24000, "shrink": 300}, "thorough": {"examples": 480000, "shrink": 2000}}
INF = 0xFFFFFF
EPS = [[], [["10.0.0.2", 3000, 17]], [["10.0.0.2", 3001, 6]]]
WI, WM, WN = 0xFFFF, 0xFF, 0xFFFFFFFF
SERVICES = [(0x1000, 0x0101, 1, 0x10000), (0x1000, 0x0102, 1, 0x10000), (0x1000, 0x0101, 2, 0x10005), (0x2000, 0x0101, 1, 0x10000), (0x3000, 0x0707, 7, 0x70007)]

when_st = st.one_of(
    st.tuples(st.just("d"), st.sampled_from([0.0, 0.001, 0.004, 0.02, 0.1, 0.3, 1.0])).map(list),
    st.tuples(st.just("t"), st.integers(0, 2), st.sampled_from(["-4", "-q", "+q", "+4", "half"])).map(list),
    st.tuples(st.just("t"), st.integers(0, 2), st.sampled_from(["-4", "-q", "+q", "+4", "half"])).map(list),
    st.just(["s"]),
)


@st.composite
def _filter(draw):
    s = SERVICES[draw(st.integers(0, 3))]
    return [s[0], s[1] if draw(st.booleans()) else WI, s[2] if draw(st.booleans()) else WM, s[3] if draw(st.integers(0, 2)) == 0 else WN]


@st.composite
def _step(draw):
    op = draw(st.sampled_from(["offer", "offer", "offer", "stop", "wait"]))
    s = {"op": op, "when": draw(when_st)}
    if op != "wait":
        # opt: the endpoint option the entry carries (a StopOffer need not repeat the options of the offer it withdraws)
        s.update(src=draw(st.integers(0, 1)), s=draw(st.integers(0, len(SERVICES) - 1)), opt=draw(st.integers(0, 2)))
    if op == "offer":
        s["ttl"] = draw(st.sampled_from([1, 1, 3, INF]))
    return s


@st.composite
def _case(draw):
    a, b = sorted([draw(st.sampled_from([0, 0.01, 0.1, 1])), draw(st.sampled_from([0, 0.01, 0.1, 1]))])
    filters = draw(st.lists(_filter(), min_size=1, max_size=4, unique_by=tuple))
    pre = draw(st.lists(_step(), max_size=2))
    return {"filters": filters, "imin": a, "imax": b, "reps": draw(st.integers(0, 4)), "base": draw(st.sampled_from([0.01, 0.05, 0.2])),
            "fttl": draw(st.sampled_from([3, 1, 0xFFFFFF])), "fr": draw(st.sampled_from([0.0, 0.25, 0.5, 1.0])), "pre": pre,
            "steps": draw(st.lists(_step(), max_size=10)), "late": draw(st.booleans())}


def strategy(tier):
    return _case()


ALPHA = ["offerA1", "offerAinf", "stopA", "offerB", "T-q", "T+q", "T-4", "+0.1"]
ENUM_LEN = {"quick": 5, "thorough": 6}
EXHAUSTIVE = {"quick": "all 8^5 = 32768 scripts of length 5 over {offer A ttl 1, offer A infinite, stop-offer A, offer B} x timing prefixes {next timer -RES/4, +RES/4, -4RES, +0.1 s} against two watched filters (A by wildcard, B concrete), 3 repetitions",
              "thorough": "all 8^6 = 262144 scripts of length 6 over the same alphabet"}


def enum_size(tier):
    return len(ALPHA) ** ENUM_LEN[tier]


def enum_case(tier, idx):
    steps = []
    when = ["d", 0.05]
    for _ in range(ENUM_LEN[tier]):
        idx, r = divmod(idx, len(ALPHA))
        a = ALPHA[r]
        if a in ("T-q", "T+q", "T-4", "+0.1"):
            when = {"T-q": ["t", 0, "-q"], "T+q": ["t", 0, "+q"], "T-4": ["t", 0, "-4"], "+0.1": ["d", 0.1]}[a]
            continue
        if a == "stopA":
            steps.append({"op": "stop", "src": 0, "s": 0, "when": when})
        else:
            steps.append({"op": "offer", "src": 0, "s": 3 if a == "offerB" else 0, "ttl": 1 if a == "offerA1" else INF, "when": when})
        when = ["d", 0.05]
    return {"filters": [[0x1000, WI, WM, WN], [0x2000, 0x0101, 1, 0x10000]], "imin": 0.1, "imax": 0.1, "reps": 3, "base": 0.2, "fttl": 3, "fr": 0.5, "pre": [],
            "steps": steps + [{"op": "wait", "when": ["d", 1.2]}]}


def fixed_cases(tier):
    out = []
    f2 = [[0x1000, WI, WM, WN], [0x2000, 0x0101, 1, 0x10000]]
    base = {"filters": f2, "imin": 0.1, "imax": 0.1, "reps": 3, "base": 0.2, "fttl": 3, "fr": 0.5, "pre": []}
    o = lambda s, ttl, when: {"op": "offer", "src": 0, "s": s, "ttl": ttl, "when": when}  # noqa: E731
    for k in range(4):
        for off in ("-4", "-q", "+q", "+4"):
            out.append(dict(base, steps=[{"op": "wait", "when": ["t", 0, "+4"]}] * k + [o(0, INF, ["t", 0, off]), o(3, INF, ["d", 0.05])]))
    out.append(dict(base, steps=[o(0, 1, ["d", 0.15]), {"op": "wait", "when": ["d", 1.0]}]))                    # expires again between rounds
    out.append(dict(base, steps=[o(0, INF, ["d", 0.15]), {"op": "stop", "src": 0, "s": 0, "when": ["d", 0.1]}, {"op": "wait", "when": ["d", 1.0]}]))
    out.append(dict(base, reps=4, steps=[o(0, 1, ["d", 0.15]), {"op": "stop", "src": 0, "s": 0, "when": ["d", 0.1]}, o(0, 3, ["d", 0.1]), {"op": "wait", "when": ["d", 2.0]}]))
    out.append(dict(base, pre=[o(0, INF, ["d", 0.01]), o(3, INF, ["d", 0.01])], steps=[{"op": "wait", "when": ["d", 1.0]}]))   # everything found before start
    out.append(dict(base, reps=0, steps=[{"op": "wait", "when": ["d", 1.0]}]))
    return out


def run_case(case):
    filters = []
    for f in case["filters"][:4]:
        f = (list(f) + [0x1000, WI, WM, WN][len(f):])[:4]   # keeps minimised cases well-formed
        if f not in filters:
            filters.append(f)
    imin, imax = min(case["imin"], case["imax"]), max(case["imin"], case["imax"])
    reps, base = max(0, min(4, case["reps"])), case["base"] if case["base"] > 0 else 0.01
    fttl = case.get("fttl", 3) or 3
    feats = collections.Counter()
    with Sim() as sim:
        stub = install_random([case.get("fr", 0.5)])
        tm = timings(INITIAL_DELAY_MIN=imin, INITIAL_DELAY_MAX=imax, REPETITIONS_MAX=reps, REPETITIONS_BASE_DELAY=base, FIND_TTL=fttl)
        tm0, apply_timings = late(tm, bool(case.get("late")))
        prot = make_sd(sim, tm0)
        log = []
        for n, f in enumerate(filters):
            prot.discovery.watch_service(cfg.Service(*f), ClientRec(sim, log, f"L{n}"))
        apply_timings(prot)
        sess = {}
        intervals = {}   # (src, key) -> list of [start, end]  (end None = still live / infinite)

        def close(p, now):
            iv = intervals.get(p)
            if iv and (iv[-1][1] is None or iv[-1][1] > now):
                iv[-1][1] = now

        def execute(k, s):
            op = s["op"]
            if op == "wait":
                return
            src = ADDRS[s.get("src", 0) % 2]
            key = SERVICES[s.get("s", 0) % len(SERVICES)]
            sid = sess[src] = sess.get(src, 0) + 1
            now = sim.now
            p = (src, key)
            if op == "offer":
                ttl = s.get("ttl", 1)
                ttl = ttl if ttl in (1, 3, INF) else 1
                close(p, now)
                intervals.setdefault(p, []).append([now, None if ttl == INF else now + ttl])
                e = {"t": "offer", "svc": key[0], "inst": key[1], "major": key[2], "minor": key[3], "ttl": ttl}
            else:
                close(p, now)
                e = {"t": "stop", "svc": key[0], "inst": key[1], "major": key[2], "minor": key[3]}
            e["eps"] = EPS[s.get("opt", 0) % len(EPS)]
            prot.datagram_received(sd_bytes([e], sid, reboot=True), src, False)

        hist.drive(sim, case.get("pre", [])[:2], execute)
        t_start = sim.now
        n_pre = len(prot.transport.sent)
        prot.discovery.start()
        hist.drive(sim, case["steps"], execute)
        sim.advance(imax + base * (2 ** reps) * 2 + 1.5)
        require(not sim.loop.errors, "C13.loop-error", lambda: str(sim.loop.errors[:2]))
        require(not sim.loop.task_errors(), "C13.loop-error", lambda: str(sim.loop.task_errors()[:2]))
        require(n_pre == 0, "C13.find-before-start", "something was sent before start")

        # ---- observed rounds
        rounds = []
        for t, dest, data in prot.transport.sent:
            ents = [e for e in sent_entries(type("T", (), {"sent": [(t, dest, data)]})())]
            require(all(e["type"] == wire.FIND for e in ents), "C13.other-entries", lambda: f"non-Find entries sent by a pure client: {ents[:2]}")
            require(dest == MCAST, "C13.destination", lambda: f"FindService sent to {dest}")
            rounds.append((t, [(e["service"], e["instance"], e["major"], e["minor"], e["ttl"]) for e in ents]))
        require(len(rounds) <= 1 + reps, "C13.too-many-rounds", lambda: f"{len(rounds)} FindService messages, at most {1 + reps} allowed (repetitions {reps}); times {[round(r[0] - t_start, 6) for r in rounds]}")
        init = [c for c in stub.calls]
        require(len(init) == 1 and (init[0][0], init[0][1]) == (imin, imax), "C13.delay-window", lambda: f"random.uniform calls {init}, expected one for the initial-delay window ({imin}, {imax})")

        def status(f, T):
            """'found' / 'unfound' / 'either' for filter f at round instant T"""
            res = "unfound"
            for (src, key), ivs in intervals.items():
                if not ref_match(f, key, True, False):
                    continue
                for a, b in ivs:
                    if a < T - RES and (b is None or b > T + RES):
                        return "found"
                    if a <= T + RES and (b is None or b >= T - RES):
                        res = "either"
            return res

        # ---- expected schedule, reactively
        T = t_start + init[0][2]
        k = 0
        ri = 0
        while True:
            st_ = {tuple(f): status(f, T) for f in filters}
            must = {f for f, v in st_.items() if v == "unfound"}
            may = {f for f, v in st_.items() if v == "either"}
            if may:
                feats["near-round"] += 1
            if 0 < len(must) < len(filters) and not may:
                feats["partial"] += 1
            obs = rounds[ri] if ri < len(rounds) and abs(rounds[ri][0] - T) < RES else None
            if obs is None:
                require(not must, "C13.missing-round",
                        lambda: f"round #{k} due at t={T:.6f} (start {t_start:.6f}): no FindService sent although {sorted(must)} are not found; sent rounds {[(round(r[0], 6), r[1]) for r in rounds]}")
                if not may:
                    break   # everything found: the client stops searching
                # ambiguous: the task may have ended here or not; nothing more can be demanded
                break
            got = set((e[0], e[1], e[2], e[3]) for e in obs[1])
            require(len(obs[1]) == len(got), "C13.duplicate-entry", lambda: f"round at t={T:.6f} repeats an entry: {obs[1]}")
            require(all(e[4] == fttl for e in obs[1]), "C13.find-ttl", lambda: f"FindService entries carry TTL {[e[4] for e in obs[1]]}, configured {fttl}")
            require(must <= got <= (must | may), "C13.round-content",
                    lambda: f"round #{k} at t={T:.6f}: sent {sorted(got)}; must contain {sorted(must)} (not found), may contain {sorted(may)} (simultaneous), watched {filters}; live intervals { {str(p): v for p, v in intervals.items()} }")
            ri += 1
            if k >= reps:
                break
            T = obs[0] + base * (2 ** k)
            k += 1
        require(ri == len(rounds), "C13.unscheduled-find",
                lambda: f"FindService sent at t={rounds[ri][0]:.6f} which is no round instant (next expected round {T:.6f}, after {ri} rounds; initial delay {init[0][2]}, base {base}, repetitions {reps}); all: {[round(r[0], 6) for r in rounds]}")
        for (src, key), ivs in intervals.items():
            if any(b is not None and b < sim.now - 1.0 for a, b in ivs):
                feats["expiry-or-stop"] += 1
                break
    return ok(bool(feats), [f"{k_}={'1+' if v else 0}" for k_, v in sorted(feats.items())] + [f"filters={len(filters)}", f"reps={reps}", f"rounds={len(rounds)}"])
