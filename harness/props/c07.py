"""C07 - Peer reboot is detected exactly, per sender and per unicast/multicast channel."""
from __future__ import annotations

from hypothesis import strategies as st

from .. import wire
from ..engine import ok, require
from ..simkit import ADDRS, Sim, make_sd, peer_addr, sd

PID = "C07"
RULE = (
    "closure: every model state (last (flag, id) or 'unseen' per key over 2 senders x 2 channels, boundary id alphabet) "
    "x every input message is executed on a fresh session store by replaying <= 4 set-up messages and then the input; "
    "plus Hypothesis sequences of 1..60 messages over up to 8 senders (3 unrelated ones, 5 that differ from one of them in one component of the socket address only: scope id, flow label, port, host) and 'crowd' steps in which 5..300 further peers send one message each, both on the session store directly and as real SD "
    "datagrams (empty/non-empty entry lists, unicast flag clear, rejected datagrams interleaved, bursts inside one loop "
    "iteration) into a protocol object whose three reboot hooks are wrapped by counting forwarders; non-trivial = "
    "contains 'flag stays set, id not increased', or a wrap (set -> clear), or traffic of another key between two "
    "messages of one key; distinct = distinct case JSON"
)
ASSUMPTIONS = [
    "session id 0 is outside the domain (a conforming peer never sends it, C08)",
    "reference rule: detected iff a previous message of the same (sender, channel) exists and (old flag clear and new set, or both set and new id <= old id)",
]
BUDGET = {"quick": {"examples": 8000, "shrink": 300}, "thorough": {"examples": 320000, "shrink": 1500}}
IDS = {"quick": [1, 2, 0xFFFF], "thorough": [1, 2, 3, 0x7FFF, 0xFFFE, 0xFFFF]}
EXHAUSTIVE = {
    "quick": "closure over 2 senders x 2 channels with ids {1,2,0xFFFF}: 7^4 states x 24 inputs = 57624 transitions",
    "thorough": "closure over 2 senders x 2 channels with ids {1,2,3,0x7FFF,0xFFFE,0xFFFF}: 13^4 states x 48 inputs = 1370928 transitions",
}
KEYS = [(0, False), (0, True), (1, False), (1, True)]


def _vals(tier):
    return [None] + [(f, i) for f in (False, True) for i in IDS[tier]]


def enum_size(tier):
    v = len(_vals(tier))
    return v ** 4 * (len(KEYS) * (v - 1))


def enum_case(tier, idx):
    vals = _vals(tier)
    v = len(vals)
    idx, inp = divmod(idx, len(KEYS) * (v - 1))
    seq = []
    for k in KEYS:
        idx, s = divmod(idx, v)
        if vals[s] is not None:
            seq.append([k[0], k[1], vals[s][0], vals[s][1]])
    ki, vi = divmod(inp, v - 1)
    f, i = vals[vi + 1]
    seq.append([KEYS[ki][0], KEYS[ki][1], f, i])
    return {"mode": "store", "seq": seq}


sid = st.one_of(st.sampled_from([1, 2, 3, 0x7FFF, 0xFFFE, 0xFFFF]), st.integers(1, 0xFFFF))


@st.composite
def _case(draw):
    mode = draw(st.sampled_from(["store", "proto", "proto"]))
    n = draw(st.integers(1, 60 if mode == "store" else 25))
    # peers 0-2 differ in everything, 3-7 from one of them in one component of the socket address only
    nsend = draw(st.sampled_from([1, 2, 3, 3, 8, 8]))
    crowds = draw(st.sampled_from([0, 0, 0, 1, 2]))
    seq = []
    last = {}
    for _ in range(n):
        if crowds and draw(st.integers(0, 7)) == 0:
            # every one of `count` further peers sends one message (its next one) on one or both channels
            seq.append(["crowd", draw(st.sampled_from([5, 17, 33, 70, 140, 300])), draw(st.sampled_from([False, True, None]))])
            continue
        s = draw(st.integers(0, nsend - 1))
        mc = draw(st.booleans())
        how = draw(st.sampled_from(["next", "next", "next", "same", "back", "rand", "wrap"]))
        of, oi = last.get((s, mc), (True, 0))
        if how == "next":
            f, i = of, min(oi + 1, 0xFFFF)
        elif how == "same":
            f, i = of, max(oi, 1)
        elif how == "back":
            f, i = True, draw(st.integers(1, max(oi, 1)))
        elif how == "wrap":
            f, i = False, 1
        else:
            f, i = draw(st.booleans()), draw(sid)
        last[(s, mc)] = (f, i)
        m = [s, mc, f, i]
        if mode == "proto":
            m.append({"entries": draw(st.sampled_from(["none", "offer", "find", "sub"])),
                      "unicast": draw(st.sampled_from([True, True, True, False])),
                      "burst": draw(st.sampled_from([False, False, True])),
                      "junk": draw(st.sampled_from(["none", "none", "garbage", "wrongsvc", "badsd"]))})
        seq.append(m)
    return {"mode": mode, "seq": seq}


def strategy(tier):
    return _case()


def ref_detect(state, key, flag, ident):
    old = state.get(key)
    state[key] = (flag, ident)
    if old is None:
        return False
    of, oi = old
    return (not of and flag) or (of and flag and ident <= oi)


def _features(seq):
    stay = wrap = inter = False
    last = {}
    lastkey = None
    seen_other_since = {}
    for m in seq:
        k = (m[0], m[1])
        if k in last:
            of, oi = last[k]
            if of and m[2] and m[3] <= oi:
                stay = True
            if of and not m[2]:
                wrap = True
            if seen_other_since.get(k):
                inter = True
        last[k] = (m[2], m[3])
        for o in seen_other_since:
            if o != k:
                seen_other_since[o] = True
        seen_other_since[k] = False
        lastkey = k
    return stay, wrap, inter


def _datagram(m):
    s, mc, flag, ident, opt = m
    b = wire.SDBuilder()
    kind = opt.get("entries", "none")
    if kind == "offer":
        b.add(wire.OFFER, 0x4242, 1, 1, 3, minor=0)
    elif kind == "find":
        b.add(wire.FIND, 0x4242, 0xFFFF, 0xFF, 3, minor=0xFFFFFFFF)
    elif kind == "sub":
        b.add(wire.SUBSCRIBE, 0x4242, 1, 1, 3, eventgroup=1, run1=[dict(k="ip", type=4, addr="10.0.0.9", proto=17, port=4000)])
    return b.datagram(ident, reboot=flag, unicast=opt.get("unicast", True))


JUNK = {
    "garbage": b"\x01\x02\x03garbage",
    "wrongsvc": wire.encode_someip(0x1234, 0x8100, 0, 1, 1, 2, 0, wire.encode_sd(0xC0, b"", b"")),
    "badsd": wire.encode_someip(0xFFFF, 0x8100, 0, 1, 1, 2, 0, b"\xc0\x00\x00\x00\x00\x00\x00\x40"),
}


CROWD0 = 100


def _expand(seq):
    """crowd steps -> one message per crowd member and channel; a member's session id goes up by one each time"""
    out = []
    nxt = {}
    for m in seq:
        if m and m[0] == "crowd":
            for mc in ((False, True) if m[2] is None else (bool(m[2]),)):
                for k in range(max(0, int(m[1]))):
                    i = nxt.get((k, mc), 0) + 1
                    nxt[(k, mc)] = i
                    out.append([CROWD0 + k, mc, True, i, {"burst": k > 0}])
        else:
            out.append([m[0], m[1], m[2], max(1, min(0xFFFF, m[3]))] + list(m[4:5]))
    return out


def run_case(case):
    seq = _expand(case["seq"])
    mode = case.get("mode", "store")
    state = {}
    if mode == "store":
        store = sd._SessionStorage()
        for n, (s, mc, flag, ident) in enumerate(m[:4] for m in seq):
            a = peer_addr(s)
            exp = ref_detect(state, (a, bool(mc)), bool(flag), ident)
            got = store.check_received(a, bool(mc), bool(flag), ident)
            require(bool(got) == exp, "C07.detect", lambda: f"message #{n} {seq[n][:4]} of {[m[:4] for m in seq[:n+1]]}: library {got} expected {exp}")
    else:
        with Sim() as sim:
            prot = make_sd(sim)
            calls = {"subscriber": [], "discovery": [], "announcer": []}
            for name in calls:
                comp = getattr(prot, name)
                orig = comp.reboot_detected

                def fwd(addr_, _o=orig, _n=name):
                    calls[_n].append(addr_)
                    return _o(addr_)

                comp.reboot_detected = fwd
            i = 0
            while i < len(seq):
                group = [seq[i]]
                i += 1
                while i < len(seq) and len(seq[i]) > 4 and seq[i][4].get("burst"):
                    group.append(seq[i])
                    i += 1
                expected = []
                for m in group:
                    a = peer_addr(m[0])
                    if ref_detect(state, (a, bool(m[1])), bool(m[2]), m[3]):
                        expected.append(a)

                def deliver(group=group):
                    for m in group:
                        opt = m[4] if len(m) > 4 else {}
                        a = peer_addr(m[0])
                        if opt.get("junk", "none") != "none":
                            prot.datagram_received(JUNK[opt["junk"]], a, bool(m[1]))
                        prot.datagram_received(_datagram([m[0], m[1], m[2], m[3], opt]), a, bool(m[1]))

                before = {k: len(v) for k, v in calls.items()}
                sim.do_at(sim.now + 0.01, deliver)
                for name, lst in calls.items():
                    got = lst[before[name]:]
                    require(got == expected, "C07.fanout",
                            lambda: f"{name}.reboot_detected calls {got} expected {expected} after {[m[:4] for m in group]} (history {[m[:4] for m in seq[:i]]})")
            require(not sim.loop.errors, "C07.loop-error", lambda: str(sim.loop.errors[:2]))
    stay, wrap, inter = _features(seq)
    return ok(stay or wrap or inter, [f"mode={mode}", f"stay={int(stay)}", f"wrap={int(wrap)}", f"interleaved={int(inter)}"])
