"""C02 - SD messages round-trip: every entry keeps exactly its own options."""
from __future__ import annotations

from hypothesis import strategies as st

from .. import strategies as S
from .. import wire
from ..engine import ok, require
from ..simkit import FakeTransport, Sim, desc_semantic, hdr, lib_option, make_sd, option_desc, sd

PID = "C02"
RULE = (
    "cases = SD messages of 0..40 entries (all four entry types, boundary-biased 16/8/24/32-bit fields, counter 0..15) whose "
    "two option runs are slices of a master sequence over a pool of distinct options (shared / overlapping / prefix / "
    "suffix / ends-at-last-element runs), fresh sequences, or consecutive blocks ('sweep', to reach > 255 options); pool = "
    "up to 10 generated options of all kinds + 0..300 synthetic distinct endpoint options; run lengths 0..17 (16/17 rare); "
    "configuration strings of every length 1..255 (random and, as fixed cases, all of them); flags reboot/unicast + six undefined bits; optionally one numeric field out of range. non-trivial = two runs share "
    "or overlap options, or a run >= 15, or > 200 options in the array, or an out-of-range field; distinct = distinct case JSON"
)
ASSUMPTIONS = [
    "harness/wire.py decodes the emitted bytes independently (layout, lengths, reserved bytes, indexes inside the array)",
    "'fails with an error' = any exception from assign_option_indexes()/build(); 'must succeed' is only demanded when every run has <= 15 options, the sum of run lengths is <= 255 and all fields fit",
    "the 4-bit counter is generated in range only: the library has no separate counter field (it is part of the 32-bit minver_or_counter)",
]
BUDGET = {"quick": {"examples": 8000, "shrink": 250}, "thorough": {"examples": 200000, "shrink": 1500}}


def filler(i):
    return dict(k="ip", type=0x04, addr=f"10.{(i >> 16) & 255}.{(i >> 8) & 255}.{i & 255}", proto=17, port=1000 + (i % 60000))


RUNLEN = [0, 0, 1, 1, 2, 3, 5, 14, 15, 15]


@st.composite
def _case(draw):
    pool = draw(S.distinct_options(10))
    fill = draw(st.sampled_from([0, 0, 0, 0, 0, 30, 200, 240, 250, 260, 300]))
    npool = len(pool) + fill
    master = draw(st.lists(st.integers(0, npool - 1), max_size=30)) if npool else []
    master += list(range(len(pool), npool))
    sweep = fill >= 200 and draw(st.booleans())
    nent = draw(st.sampled_from([0, 1, 2, 2, 3, 4, 6, 10, 20, 40])) if not sweep else draw(st.sampled_from([9, 10, 12, 20]))
    entries = []
    prev_runs = []
    pos = draw(st.integers(0, 30)) if sweep else 0
    for _ in range(nent):
        e = draw(S.entry_fields())
        for r in ("run1", "run2"):
            rare = draw(st.integers(0, 24)) == 0
            ln = draw(st.sampled_from([16, 17])) if rare else draw(st.sampled_from(RUNLEN))
            kind = draw(st.sampled_from(["slice", "slice", "tail", "fresh", "prev", "empty"])) if not sweep else "sweep"
            if not master or kind == "empty" or ln == 0:
                run = []
            elif kind == "sweep":
                ln = draw(st.sampled_from([15, 15, 14, 7]))
                run = master[pos : pos + ln]
                pos += draw(st.sampled_from([ln, ln, ln - 1, ln + 1]))
            elif kind == "slice":
                start = draw(st.integers(0, len(master) - 1))
                run = master[start : start + ln]
            elif kind == "tail":
                run = master[max(0, len(master) - ln) :]
            elif kind == "prev" and prev_runs:
                run = list(draw(st.sampled_from(prev_runs)))
            else:
                run = draw(st.lists(st.integers(0, npool - 1), min_size=ln, max_size=ln))
            e[r] = run
            if run:
                prev_runs.append(run)
        entries.append(e)
    flags = {"reboot": draw(st.booleans()), "unicast": draw(st.booleans()), "unknown": draw(st.sampled_from([0, 0, 0, 1, 0x20, 0x3F, 0x15]))}
    oob = None
    if entries and draw(st.integers(0, 11)) == 0:
        i = draw(st.integers(0, len(entries) - 1))
        field = draw(st.sampled_from(["service", "instance", "major", "ttl", "last"]))
        width = {"service": 16, "instance": 16, "major": 8, "ttl": 24, "last": 32}[field]
        val = draw(st.sampled_from([1 << width, (1 << width) + 1, -1, 1 << (width + 8)]))
        oob = {"entry": i, "field": field, "value": val}
    return {"pool": pool, "fill": fill, "entries": entries, "flags": flags, "oob": oob}


def strategy(tier):
    return _case()


def fixed_cases(tier):
    """the shapes named in the statement, deterministically"""
    out = []
    f = {"reboot": True, "unicast": True, "unknown": 0}
    base = dict(type=1, service=1, instance=1, major=1, ttl=3, minor=0)
    for n2 in (15, 16, 17, 31, 255):
        out.append({"pool": [], "fill": 300, "flags": f, "oob": None,
                    "entries": [dict(base, run1=[], run2=list(range(n2)))]})
        out.append({"pool": [], "fill": 300, "flags": f, "oob": None,
                    "entries": [dict(base, run1=list(range(n2)), run2=[])]})
        out.append({"pool": [], "fill": 300, "flags": f, "oob": None,
                    "entries": [dict(base, run1=[0, 1], run2=list(range(n2)))]})
    # exactly 255 / 256 / 270 shared options
    for total in (255, 256, 270):
        ents = []
        pos = 0
        while pos < total:
            ln = min(15, total - pos)
            ents.append(dict(base, run1=list(range(pos, pos + ln)), run2=[]))
            pos += ln
        ents.append(dict(base, run1=[total - 1], run2=[0]))
        out.append({"pool": [], "fill": 300, "flags": f, "oob": None, "entries": ents})
    # a configuration string of every length 1..255 (bare key and key=value), referenced by both runs of one entry
    for d in S.cfg_length_sweep():
        out.append({"pool": [d], "fill": 0, "flags": f, "oob": None, "entries": [dict(base, run1=[0], run2=[0])]})
    # partial overlap at the end of the array, run ending at the last element
    out.append({"pool": [], "fill": 10, "flags": f, "oob": None,
                "entries": [dict(base, run1=[0, 1], run2=[1, 2]), dict(base, run1=[2, 3], run2=[1, 2, 3]), dict(base, run1=[3], run2=[0, 1, 2])]})
    return out


def _opt(case, i):
    pool = case["pool"]
    return pool[i] if i < len(pool) else filler(i - len(pool))


def _last(e):
    if "minor" in e:
        return e["minor"]
    return (e.get("counter", 0) << 16) | e.get("eventgroup", 0)


class _Recv(sd.ServiceDiscoveryProtocol):
    def __init__(self, *a, **k):
        super().__init__(*a, **k)
        self.got = []

    def sd_message_received(self, sdhdr, addr, multicast):
        self.got.append(sdhdr)


def run_case(case):
    entries = case["entries"]
    npool = len(case["pool"]) + case.get("fill", 0)
    flags = case["flags"]
    oob = case.get("oob")
    T = hdr.SOMEIPSDEntryType
    cache = {}

    def lopt(i):
        if i not in cache:
            cache[i] = lib_option(_opt(case, i))
        return cache[i]

    lib_entries = []
    fields = []
    for n, e in enumerate(entries):
        f = dict(type=e["type"] if e["type"] in wire.ENTRY_TYPES else 1, service=e["service"], instance=e["instance"],
                 major=e["major"], ttl=e["ttl"], last=_last(e))
        if oob and oob["entry"] == n:
            f[oob["field"]] = oob["value"]
        runs = [[i % npool for i in e.get(r, [])] if npool else [] for r in ("run1", "run2")]
        fields.append((f, runs))
        lib_entries.append(hdr.SOMEIPSDEntry(
            sd_type=T(f["type"]), service_id=f["service"], instance_id=f["instance"], major_version=f["major"],
            ttl=f["ttl"], minver_or_counter=f["last"], options_1=tuple(lopt(i) for i in runs[0]),
            options_2=tuple(lopt(i) for i in runs[1])))

    max_run = max([len(r) for _, rs in fields for r in rs] + [0])
    sum_runs = sum(len(r) for _, rs in fields for r in rs)
    widths = {"service": 16, "instance": 16, "major": 8, "ttl": 24, "last": 32}
    fits = all(0 <= f[k] < (1 << w) for f, _ in fields for k, w in widths.items())
    representable_for_sure = fits and max_run <= 15 and sum_runs <= 255
    impossible = (not fits) or max_run > 15

    msg = hdr.SOMEIPSDHeader(entries=tuple(lib_entries), flag_reboot=bool(flags["reboot"]),
                             flag_unicast=bool(flags["unicast"]), flags_unknown=flags["unknown"] & 0x3F)
    try:
        assigned = msg.assign_option_indexes()
        data = bytes(assigned.build())
        err = None
    except Exception as exc:  # noqa: BLE001 - "fails with an error"
        err = exc
        data = None

    share = False
    seen_opts = set()
    for _, rs in fields:
        for r in rs:
            if any(i in seen_opts for i in r):
                share = True
            seen_opts.update(r)
    nontrivial = share or max_run >= 15 or bool(oob)
    labels = [f"maxrun={'>15' if max_run > 15 else ('15' if max_run == 15 else '<15')}", "oob" if oob else "inrange",
              "shared" if share else "noshare", "error" if err else "built"]

    if err is not None:
        require(not representable_for_sure, "C02.spurious-error",
                lambda: f"representable message (max run {max_run}, {sum_runs} options in runs) failed: {type(err).__name__}: {err}")
        return ok(nontrivial, labels)

    # built: must be faithful. Independent decoder first.
    try:
        wsd = wire.decode_sd(data)
    except wire.WireError as we:
        require(False, "C02.layout" if not impossible else "C02.silent-corruption",
                f"emitted bytes are not a well-formed SD message for the independent decoder: {we}; max_run={max_run} fits={fits}")
    require(wsd["rest"] == b"" and wsd["reserved"] == "000000", "C02.layout", lambda: f"rest={wsd['rest'][:8].hex()} reserved={wsd['reserved']}")
    expflags = (0x80 if flags["reboot"] else 0) | (0x40 if flags["unicast"] else 0) | (flags["unknown"] & 0x3F)
    require(wsd["flags"] == expflags, "C02.flags", lambda: f"flags byte {wsd['flags']:#x} expected {expflags:#x}")
    clause = "C02.silent-corruption" if impossible else "C02.entry-differs"
    res = wire.sd_resolved(wsd)
    require(len(res) == len(fields), clause, lambda: f"{len(res)} entries decoded, {len(fields)} encoded")
    for n, (w, (f, runs)) in enumerate(zip(res, fields)):
        wl = w["minor"] if "minor" in w else (w["counter"] << 16) | w["eventgroup"]
        got = (w["type"], w["service"], w["instance"], w["major"], w["ttl"], wl)
        exp = (f["type"], f["service"], f["instance"], f["major"], f["ttl"], f["last"])
        require(got == exp, clause, lambda: f"entry {n}: decoded fields {got} encoded {exp}")
        for rn, key in ((0, "run1"), (1, "run2")):
            g = [wire.option_semantic(o) for o in w[key]]
            x = [desc_semantic(_opt(case, i)) for i in runs[rn]]
            require(g == x, clause if impossible else "C02.options-differ",
                    lambda: f"entry {n} {key}: decoded {len(g)} options {g[:3]}.. encoded {len(x)} options {x[:3]}.. (idx={w['idx1'] if rn == 0 else w['idx2']})")
        for o in w["run1"] + w["run2"]:
            require(o.get("reserved", 0) == 0 and o.get("reserved2", 0) == 0 and o.get("tail", "") == "", "C02.layout", lambda: f"option layout {o}")
    # library decoder + resolution
    parsed, rest = hdr.SOMEIPSDHeader.parse(data)
    resolved = parsed.resolve_options()
    require(bytes(rest) == b"" and (resolved.flag_reboot, resolved.flag_unicast, resolved.flags_unknown) ==
            (bool(flags["reboot"]), bool(flags["unicast"]), flags["unknown"] & 0x3F), "C02.lib-flags", lambda: f"{resolved.flag_reboot} {resolved.flag_unicast} {resolved.flags_unknown}")
    require(len(resolved.entries) == len(lib_entries), "C02.lib-roundtrip", "entry count")
    for n, (a, b) in enumerate(zip(resolved.entries, lib_entries)):
        require(a == b and tuple(a.options_1) == tuple(b.options_1) and tuple(a.options_2) == tuple(b.options_2),
                "C02.lib-roundtrip", lambda: f"entry {n}: parse+resolve gave {str(a)[:300]} for {str(b)[:300]}")
    # shared, de-duplicated array
    nopt = len(wsd["options"])
    require(nopt <= sum_runs, "C02.array-size", lambda: f"{nopt} options in the array, only {sum_runs} in all runs")
    # replay the array growth: an entry whose run equals a run already placed must not make it grow
    known_runs = set()
    arr_len = 0
    for w, (f, runs) in zip(res, fields):
        for rn, key in ((0, "idx1"), (1, "idx2")):
            r = tuple(runs[rn])
            if not r:
                continue
            end = w[key] + len(r)
            if r in known_runs:
                require(end <= arr_len, "C02.not-shared", lambda: f"run {r[:4]}.. placed again at {w[key]} beyond the array built so far ({arr_len})")
            arr_len = max(arr_len, end)
            known_runs.add(r)
    if nopt > 200:
        nontrivial = True
        labels.append("array>200")

    # the same pipeline through send_sd -> transport -> a second protocol object
    with Sim() as sim:
        a = make_sd(sim)
        b = _Recv(("224.244.224.245", 30490))
        b.transport = FakeTransport(sim)
        a.send_sd(lib_entries, remote=("10.0.0.7", 30490))
        if not lib_entries:  # nothing is transmitted for an empty entry list (C08)
            return ok(nontrivial, labels)
        require(len(a.transport.sent) == 1, "C02.send_sd", lambda: f"{len(a.transport.sent)} datagrams")
        b.datagram_received(a.transport.sent[0][2], ("10.0.0.1", 30490), False)
        sim.settle()
        require(len(b.got) == 1 and list(b.got[0].entries) == lib_entries, "C02.send_sd",
                lambda: f"received {len(b.got)} SD messages; entries equal: {bool(b.got) and list(b.got[0].entries) == lib_entries}")
    return ok(nontrivial, labels)
