"""C12 - FindService is answered only by matching, ready instances, by unicast, in time."""
from __future__ import annotations

import collections

from hypothesis import strategies as st

from .. import hist, wire
from ..engine import ok, require
from ..simkit import ADDRS, HarnessError, ServerRec, Sim, cfg, desc_semantic, install_random, late, lib_option, make_sd, sd, sd_bytes, sent_entries, timings
from ..vloop import RES
from .c10 import OPTS, _timing

PID = "C12"
RULE = (
    "exhaustive: every script of bounded length over {start, stop, four kinds of FindService} x timing prefixes relative to the next library timer, for two timing configurations; random: cases = timing configuration (as C10: initial-delay window, repetitions, cyclic or not, TTL, collection timeout, "
    "request-response window, drawn fractions; one Timings object or separate ones for protocol and instances), 1..3 instances of one service differing in instance id / major / minor "
    "version, with unrelated option runs or runs that are prefixes / suffixes / rotations of each other, and a script of announcer start / stop / restart and FindService datagrams whose ids are taken from an "
    "instance, off by one, or the wildcard (every wildcard combination), unicast or multicast, from 2 requesters (one in six of their messages reveals a reboot of the requester), placed "
    "by delay or relative to pending library timers (initial wait, each repetition, cyclic phase, just before/after a "
    "stop, after restart, while an earlier delayed answer is pending). non-trivial = a wildcard match, or >= 2 "
    "responders, or a Find within 4 RES of a lifecycle boundary / timer; distinct = distinct case JSON"
)
ASSUMPTIONS = [
    "an instance 'has sent its first offer' once it queued it (as C10); a Find arriving between queueing and transmission of the first offer may or may not be answered",
    "a delayed answer whose instance was stopped meanwhile must not be sent (C10); stopped and restarted meanwhile: either if the new run has offered by the due time, otherwise (initial wait phase) silence",
    "one FindService entry per datagram (several datagrams may share an iteration)",
    "reference matcher: service ids equal; instance id, major and minor version equal unless the request carries the wildcard",
]
BUDGET = {"quick": {"examples": 8000, "shrink": 300}, "thorough": {"examples": 480000, "shrink": 2000}}
INF = 0xFFFFFF
INST = [(0x4000, 0x0101, 1, 0x10007), (0x4000, 0x0102, 1, 0x300), (0x4000, 0x0101, 2, 0x10007)]
W = (None, 0xFFFF, 0xFF, 0xFFFFFFFF)
_A = dict(k="ip", type=0x04, addr="10.0.0.1", proto=17, port=30501)
_B = dict(k="ip", type=0x04, addr="10.0.0.1", proto=6, port=30501)
_C = dict(k="ip", type=0x06, addr="2001:db8::1", proto=17, port=30501)
# option runs of the three instances: unrelated ones, and runs that are prefixes / suffixes / rotations of each other
# (what the shared options array of a message with several answers has to keep apart)
OPTSETS = [OPTS, [([_A], []), ([_A, _B], []), ([_B], [_A])], [([_A, _B], [_C]), ([_B, _C], [_A]), ([_C, _A], [_A, _B])]]

when_st = st.one_of(
    st.tuples(st.just("d"), st.sampled_from([0.0, 0.001, 0.004, 0.02, 0.1, 0.3, 1.0, 2.5])).map(list),
    st.tuples(st.just("t"), st.integers(0, 3), st.sampled_from(["-4", "-q", "+q", "+4", "half"])).map(list),
    st.tuples(st.just("t"), st.integers(0, 3), st.sampled_from(["-4", "-q", "+q", "+4", "half"])).map(list),
    st.just(["s"]),
)


@st.composite
def _find(draw):
    base = list(INST[draw(st.integers(0, 2))])
    f = [base[0] if draw(st.integers(0, 7)) else base[0] + 1]
    for k in (1, 2, 3):
        how = draw(st.sampled_from(["same", "same", "wild", "wild", "off"]))
        f.append(base[k] if how == "same" else (W[k] if how == "wild" else base[k] + 1))
    fd = {"op": "find", "mc": draw(st.booleans()), "src": draw(st.integers(0, 1)), "f": f, "when": draw(when_st)}
    if draw(st.integers(0, 5)) == 0:
        fd["rb"] = True    # the requester restarted: this message carries the reboot flag and session id 1
    return fd


@st.composite
def _case(draw):
    steps = [{"op": "start", "when": ["d", 0.01]}]
    for _ in range(draw(st.integers(1, 10))):
        op = draw(st.sampled_from(["find"] * 6 + ["stop", "start", "wait"]))
        steps.append(draw(_find()) if op == "find" else {"op": op, "when": draw(when_st)})
    return {"tm": draw(_timing()), "n": draw(st.integers(1, 3)), "fr": draw(st.lists(st.sampled_from([0.0, 0.25, 0.5, 1.0]), min_size=1, max_size=4)), "steps": steps,
            "opts": draw(st.integers(0, len(OPTSETS) - 1)), "decoy": draw(st.booleans()), "late": draw(st.booleans())}


def strategy(tier):
    return _case()


ALPHA = ["start", "stop", "find-mc-wild", "find-uc-exact", "find-mc-exact", "find-uc-miss", "T-q", "T+q", "+0.02", "+0.5"]
ENUM_LEN = {"quick": 4, "thorough": 5}
ENUM_TM = [dict(imin=0.1, imax=0.1, reps=2, base=0.05, cyc=1, ttl=3, coll=0.005, rmin=0.02, rmax=0.3),
           dict(imin=0, imax=0, reps=1, base=0.05, cyc=0, ttl=INF, coll=0, rmin=0.003, rmax=0.02)]
EXHAUSTIVE = {"quick": "all 10^4 scripts of length 4 over {start, stop, multicast wildcard Find, unicast exact Find, multicast exact Find, unicast near-miss Find} x timing prefixes {next timer -RES/4, +RES/4, +0.02 s, +0.5 s}, for a cyclic configuration with collection timeout and a non-cyclic one without, three instances",
              "thorough": "all 10^5 scripts of length 5 over the same alphabet and configurations"}


def enum_size(tier):
    return len(ENUM_TM) * len(ALPHA) ** ENUM_LEN[tier]


def enum_case(tier, idx):
    idx, ci = divmod(idx, len(ENUM_TM))
    steps = [{"op": "start", "when": ["d", 0.01]}]
    when = ["d", 0.05]
    finds = {"find-mc-wild": (True, [0x4000, 0xFFFF, 0xFF, 0xFFFFFFFF]), "find-uc-exact": (False, list(INST[0])),
             "find-mc-exact": (True, list(INST[1])), "find-uc-miss": (False, [0x4000, 0x0101, 1, 0x10008])}
    for _ in range(ENUM_LEN[tier]):
        idx, r = divmod(idx, len(ALPHA))
        a = ALPHA[r]
        if a in ("T-q", "T+q", "+0.02", "+0.5"):
            when = {"T-q": ["t", 0, "-q"], "T+q": ["t", 0, "+q"], "+0.02": ["d", 0.02], "+0.5": ["d", 0.5]}[a]
            continue
        if a in finds:
            steps.append({"op": "find", "mc": finds[a][0], "src": len(steps) % 2, "f": finds[a][1], "when": when})
        else:
            steps.append({"op": a, "when": when})
        when = ["d", 0.05]
    return {"tm": ENUM_TM[ci], "n": 3, "fr": [0.5, 0.0, 1.0], "steps": steps}


def fixed_cases(tier):
    out = []
    base = dict(imin=0.1, imax=0.1, reps=2, base=0.05, cyc=1, ttl=3, coll=0, rmin=0.02, rmax=0.3)
    wild = [0x4000, 0xFFFF, 0xFF, 0xFFFFFFFF]
    for cyc in (0, 1):
        for coll in (0, 0.005):
            tm = dict(base, cyc=cyc, coll=coll)
            for mc in (False, True):
                f = {"op": "find", "mc": mc, "src": 0, "f": wild}
                out += [
                    {"tm": tm, "n": 3, "fr": [0.5], "steps": [{"op": "start", "when": ["d", 0.01]}, dict(f, when=["d", 0.05]), dict(f, when=["d", 0.5]), dict(f, when=["d", 2.0]),
                                                               {"op": "stop", "when": ["d", 0.1]}, dict(f, when=["d", 0.1]), {"op": "start", "when": ["d", 0.1]}, dict(f, when=["d", 0.05]), dict(f, when=["d", 1.0])]},
                    {"tm": tm, "n": 2, "fr": [1.0], "steps": [{"op": "start", "when": ["d", 0.01]}, dict(f, when=["d", 1.0]), {"op": "stop", "when": ["d", 0.05]}, {"op": "wait", "when": ["d", 1.0]}]},
                ]
                # every wildcard combination against 3 instances in the main phase
                for inst in (0x0101, 0xFFFF, 3):
                    for major in (1, 0xFF, 9):
                        for minor in (0x10007, 0xFFFFFFFF, 1):
                            out.append({"tm": tm, "n": 3, "fr": [0.0], "steps": [{"op": "start", "when": ["d", 0.01]}, {"op": "find", "mc": mc, "src": 1, "f": [0x4000, inst, major, minor], "when": ["d", 1.0]},
                                                                                  {"op": "wait", "when": ["d", 0.5]}]})
    return out


def _match(inst, f):
    return inst[0] == f[0] and f[1] in (0xFFFF, inst[1]) and f[2] in (0xFF, inst[2]) and f[3] in (0xFFFFFFFF, inst[3])


def run_case(case):
    t = dict(case["tm"])
    t["ttl"] = t["ttl"] if t["ttl"] in (1, 3, INF) else 1
    t["imin"], t["imax"] = min(t["imin"], t["imax"]), max(t["imin"], t["imax"])
    t["rmin"], t["rmax"] = min(t["rmin"], t["rmax"]), max(t["rmin"], t["rmax"])
    if (t["rmin"], t["rmax"]) == (t["imin"], t["imax"]):
        t["rmax"] += 0.007
    n = max(1, min(3, case.get("n", 1)))
    steps = case["steps"]
    feats = collections.Counter()
    with Sim() as sim:
        stub = install_random(case.get("fr") or [0.5])
        tm = timings(INITIAL_DELAY_MIN=t["imin"], INITIAL_DELAY_MAX=t["imax"], REPETITIONS_MAX=t["reps"], REPETITIONS_BASE_DELAY=t["base"],
                     CYCLIC_OFFER_DELAY=t["cyc"], ANNOUNCE_TTL=t["ttl"], SEND_COLLECTION_TIMEOUT=t["coll"],
                     REQUEST_RESPONSE_DELAY_MIN=t["rmin"], REQUEST_RESPONSE_DELAY_MAX=t["rmax"])
        tm_prot = tm_inst = tm
        tm_inst_same = not case.get("decoy")
        if case.get("decoy"):
            # separate Timings objects for the protocol and the instances; the parameters of the other role are set apart
            tm_prot = timings(INITIAL_DELAY_MIN=0.013, INITIAL_DELAY_MAX=0.017, REPETITIONS_MAX=5, REPETITIONS_BASE_DELAY=0.011,
                              CYCLIC_OFFER_DELAY=0.37, ANNOUNCE_TTL=7, SEND_COLLECTION_TIMEOUT=t["coll"],
                              REQUEST_RESPONSE_DELAY_MIN=t["rmin"], REQUEST_RESPONSE_DELAY_MAX=t["rmax"])
            tm_inst = timings(INITIAL_DELAY_MIN=t["imin"], INITIAL_DELAY_MAX=t["imax"], REPETITIONS_MAX=t["reps"], REPETITIONS_BASE_DELAY=t["base"],
                              CYCLIC_OFFER_DELAY=t["cyc"], ANNOUNCE_TTL=t["ttl"], SEND_COLLECTION_TIMEOUT=0.033,
                              REQUEST_RESPONSE_DELAY_MIN=0.041, REQUEST_RESPONSE_DELAY_MAX=0.043)
        OPTS_ = OPTSETS[case.get("opts", 0) % len(OPTSETS)]
        # timings given to the constructors or assigned to the objects' Timings afterwards (before anything is started)
        ctor_arg, apply_p = late(tm_prot, bool(case.get("late")))
        prot = make_sd(sim, ctor_arg)
        tm_prot = apply_p(prot)            # the protocol object's live Timings
        tm_inst = tm_prot if tm_inst_same else late(tm_inst, bool(case.get("late")))[1]()
        ann = prot.announcer
        runs = {i: [] for i in range(n)}
        queued = []
        orig_queue = ann.queue_send
        OFFER = sd.someip.header.SOMEIPSDEntryType.OfferService

        def rec_queue(entry, remote=None):
            idx = next((j for j in range(n) if (entry.service_id, entry.instance_id, entry.major_version) == INST[j][:3]), None)
            if idx is not None and entry.sd_type == OFFER and entry.ttl != 0:
                r = runs[idx][-1] if runs[idx] else None
                if remote is None and r is not None and r["first"] is None and r["stop"] is None:
                    r["first"] = sim.now
                queued.append((sim.now, remote, idx))
            return orig_queue(entry, remote=remote)

        ann.queue_send = rec_queue
        for i in range(n):
            sid, iid, maj, minor = INST[i]
            o1, o2 = OPTS_[i]
            svc = cfg.Service(sid, iid, maj, minor, options_1=tuple(lib_option(o) for o in o1), options_2=tuple(lib_option(o) for o in o2))
            ann.announce_service(sd.ServiceInstance(svc, ServerRec(sim, [], f"I{i}"), ann, tm_inst))
        started = [False]
        finds = []

        def execute(k, s):
            op = s["op"]
            if op == "start":
                if started[0]:
                    return
                started[0] = True
                for i in range(n):
                    runs[i].append({"t0": sim.now, "stop": None, "first": None})
                ann.start()
            elif op == "stop":
                if started[0]:
                    for i in range(n):
                        runs[i][-1]["stop"] = sim.now
                started[0] = False
                ann.stop()
            elif op == "find":
                f = s["f"]
                src = ADDRS[s.get("src", 0) % 2]
                snap = [(len(runs[i]) - 1, bool(runs[i]) and runs[i][-1]["stop"] is None, runs[i][-1]["first"] if runs[i] else None) for i in range(n)]
                nc = len(stub.calls)
                rb = bool(s.get("rb"))
                prot.datagram_received(sd_bytes([{"t": "find", "svc": f[0], "inst": f[1], "major": f[2], "minor": f[3]}], 1 if rb else 1 + k, reboot=rb), src, bool(s.get("mc")))
                if rb and any(x["src"] == src and x["mc"] == bool(s.get("mc")) for x in finds):
                    feats["requester-reboot"] += 1
                new = stub.calls[nc:]
                finds.append({"t": sim.now, "mc": bool(s.get("mc")), "src": src, "f": f, "snap": snap, "draws": new, "k": k})

        for s in steps:
            w = s.get("when", ["d", 0.01])
            if s["op"] == "find" and w[0] == "t" and w[2] != "half":
                feats["near-timer"] += 1
        hist.drive(sim, steps, execute)
        sim.advance(max(1.0, t["rmax"] + t["coll"] + 0.1))
        end = sim.now
        require(not sim.loop.errors, "C12.loop-error", lambda: str(sim.loop.errors[:2]))
        require(not sim.loop.task_errors(), "C12.loop-error", lambda: str(sim.loop.task_errors()[:2]))

        if not queued and any(e["type"] == wire.OFFER and e["ttl"] for e in sent_entries(prot.transport)):
            raise HarnessError("offers were transmitted but ServiceAnnouncer.queue_send was never called: the observation point of this check is gone")
        # ---- expectation per (find, instance): "yes" / "no" / "either", with the due time of the answer
        must = collections.Counter()   # (requester, instance, due bucket) -> count
        may = collections.Counter()
        due_of = {}
        for fd in finds:
            for a, b, v in fd["draws"]:
                require((a, b) == (t["rmin"], t["rmax"]), "C12.delay-window", lambda: f"random.uniform({a}, {b}) asked while handling a FindService; configured request-response window ({t['rmin']}, {t['rmax']})")
            require(len(fd["draws"]) <= (1 if fd["mc"] else 0), "C12.delay-window", lambda: f"{len(fd['draws'])} delay draws for one {'multicast' if fd['mc'] else 'unicast'} FindService entry")
            delay = fd["draws"][0][2] if fd["draws"] else 0.0
            due = fd["t"] + delay
            responders = 0
            for i in range(n):
                ri, running, first = fd["snap"][i]
                if not _match(INST[i], fd["f"]):
                    continue
                if not running:
                    continue
                ready = "no"
                if first is not None:
                    ready = "yes" if first < fd["t"] - RES else "either"
                    if t["coll"] and first + t["coll"] + RES >= fd["t"]:
                        ready = "either"   # queued but possibly not yet transmitted
                else:
                    # the first offer may be queued at this very instant (after the Find in the same iteration)
                    r = runs[i][ri]
                    if r["first"] is not None and abs(r["first"] - fd["t"]) < RES:
                        ready = "either"
                if ready == "no":
                    continue
                if fd["mc"] and not fd["draws"]:
                    # the library saw no responder at arrival (no delay drawn): only possible when readiness was ambiguous
                    require(ready == "either", "C12.missing-answer", lambda: f"multicast FindService {fd['f']} at t={fd['t']:.6f}: instance {INST[i]} was ready but no answer was scheduled")
                    continue
                r = runs[i][ri]
                st_ = r["stop"]
                if st_ is not None and st_ < due - RES:
                    # stopped before the answer was due: nothing may be sent; restarted meanwhile: either
                    later = [x for x in runs[i][ri + 1:] if x["t0"] <= due + RES and x["first"] is not None and x["first"] <= due + RES
                             and (x["stop"] is None or x["stop"] >= due - RES)]
                    if later:
                        ready = "either"   # restarted meanwhile and offering again by the time the answer is due
                    else:
                        continue           # stopped, or restarted but still in its initial wait phase: silence
                elif st_ is not None and abs(st_ - due) < RES:
                    ready = "either"
                key = (fd["src"], i, round(due, 9))
                (must if ready == "yes" else may)[key] += 1
                if ready == "yes":
                    responders += 1
                    if fd["f"][1] == 0xFFFF or fd["f"][2] == 0xFF or fd["f"][3] == 0xFFFFFFFF:
                        feats["wildcard-match"] += 1
            if responders >= 2:
                feats["multi-responders"] += 1
        got = collections.Counter()
        for tq, remote, idx in queued:
            if remote is not None:
                got[(remote, idx, round(tq, 9))] += 1
        # a timer runs in the iteration whose clock is within RES *before* its deadline: an answer is queued at some
        # instant in (due - RES, due]. Queue events are matched to due answers per (requester, instance): first every owed
        # answer takes the earliest unmatched event inside its window, then every remaining event needs an allowed one.
        def window(tq, due):
            return due - 1.02 * RES <= tq <= due + 0.02 * RES

        groups = set((k[0], k[1]) for k in list(must) + list(may) + list(got))
        for g in sorted(groups, key=repr):
            evs = sorted(t_ for k, c in got.items() if (k[0], k[1]) == g for t_ in [k[2]] * c)
            owed = sorted(t_ for k, c in must.items() if (k[0], k[1]) == g for t_ in [k[2]] * c)
            allowed = sorted(t_ for k, c in may.items() if (k[0], k[1]) == g for t_ in [k[2]] * c)
            used = [False] * len(evs)
            for d_ in owed:
                hit = next((n_ for n_, t_ in enumerate(evs) if not used[n_] and window(t_, d_)), None)
                require(hit is not None, "C12.missing-answer",
                        lambda: f"instance {INST[g[1]]} owes an answer to {g[0]} due at t={d_:.6f}, none queued then (queued {[round(x, 6) for x in evs]}); finds: {[(round(f['t'], 6), f['mc'], f['src'], f['f'], [round(d[2], 6) for d in f['draws']]) for f in finds]}; runs {runs[g[1]]}")
                used[hit] = True
            free = list(allowed)
            for n_, t_ in enumerate(evs):
                if used[n_]:
                    continue
                hit = next((m_ for m_, d_ in enumerate(free) if window(t_, d_)), None)
                require(hit is not None, "C12.unexpected-answer",
                        lambda: f"unicast offer of instance {INST[g[1]]} queued for {g[0]} at t={t_:.6f}: no FindService from there is owed (due {[round(x, 6) for x in owed]}) or allowed (due {[round(x, 6) for x in allowed]}) an answer then; finds: {[(round(f['t'], 6), f['mc'], f['src'], f['f']) for f in finds]}; runs {runs[g[1]]}")
                free.pop(hit)
        # ---- on the wire: unicast answers carry TTL and options, leave within the collection timeout, go to the requester only,
        # and every queued answer is transmitted (exactly one offer per FindService entry reaches the requester)
        wire_count = collections.Counter()
        for e in sent_entries(prot.transport):
            if e["type"] == wire.OFFER and e["ttl"] != 0 and e["dest"] != ("224.244.224.245", 30490):
                wire_count[(e["dest"], (e["service"], e["instance"], e["major"]))] += 1
        queue_count = collections.Counter((remote, INST[idx][:3]) for tq, remote, idx in queued if remote is not None)
        require(wire_count == queue_count, "C12.answers-on-the-wire",
                lambda: f"unicast offers queued per (requester, instance): {dict(queue_count)}; transmitted: {dict(wire_count)}")
        for e in sent_entries(prot.transport):
            if e["type"] != wire.OFFER or e["ttl"] == 0 or e["dest"] == ("224.244.224.245", 30490):
                continue
            idx = next((j for j in range(n) if (e["service"], e["instance"], e["major"]) == INST[j][:3]), None)
            require(idx is not None, "C12.unexpected-answer", lambda: f"offer {e} for an unknown instance")
            o1, o2 = OPTS_[idx]
            require(e["ttl"] == t["ttl"] and e["minor"] == INST[idx][3] and e["run1"] == [desc_semantic(o) for o in o1] and e["run2"] == [desc_semantic(o) for o in o2],
                    "C12.answer-content", lambda: f"answer {e} of instance {INST[idx]} (TTL {t['ttl']})")
            # a timer runs in the iteration whose clock is within RES *before* its deadline (see window() above): same tolerance here
            cands = [k for k in list(must) + list(may) if k[0] == e["dest"] and k[1] == idx and -1.02 * RES <= e["t"] - k[2] <= t["coll"] + RES]
            require(cands, "C12.answer-time", lambda: f"answer of {INST[idx]} to {e['dest']} on the wire at t={e['t']:.6f}: no FindService from there is due then (collection timeout {t['coll']}); due: {sorted(k[2] for k in list(must) + list(may) if k[0] == e['dest'] and k[1] == idx)}")
    nontrivial = bool(feats) and bool(finds)
    return ok(nontrivial, [f"{k}={'1+' if v else 0}" for k, v in sorted(feats.items())] + [f"instances={n}", f"cyclic={int(bool(t['cyc']))}", f"finds={'0' if not finds else '1+'}"])
