"""C05 - Discovery listeners see a truthful, strictly alternating service history."""
from __future__ import annotations

from hypothesis import strategies as st

from .. import hist
from ..engine import ok, require
from ..simkit import ClientRec, Sim, cfg, make_sd, peer_addr, sd_bytes
from ..vloop import RES
from .c07 import ref_detect
from .c19 import ref_match

PID = "C05"
RULE = (
    "exhaustive: every history of bounded length over the alphabet {offer ttl 1, offer infinite, stop-offer, reboot+offer "
    "in one message, reboot-only message, connection lost, watch, unwatch} x timing prefixes {next TTL deadline -RES/4, "
    "+RES/4, +0.5 s} for one service, one source, one listener; random: Hypothesis histories of 1..14 steps from 8 "
    "sources (3 unrelated IPv4/IPv6 ones, 5 that differ from one of them only in scope id / flow label / port / host), 'crowd' steps in which 5..140 further peers send one message each, both channels, 8 concrete services, filters with every wildcard combination, watch/unwatch/"
    "watch-all of 4 listener objects, session counters that continue / jump far ahead / reset / repeat, messages of 1..3 entries (offer TTL "
    "from {1,2,3,0xFFFFFE,inf}, stop-offer, find), one in two of them padded in front or behind with offers of 14..40 filler services, unicast flag clear, connection loss, steps timed by delays or relative "
    "to pending TTL timers with offsets -4RES/-RES/4/+RES/4/+4RES or in the same iteration as the previous step. "
    "non-trivial = reboot evidence with an offer in the same message, or a step within RES of a TTL deadline, or "
    "watch/unwatch while something is found; distinct = distinct case JSON"
)
ASSUMPTIONS = [
    "reference model: per (source, channel) reboot rule of C07; per (source, service) live deadline = arrival + ttl or none for 0xFFFFFF, cleared by stop-offer, reboot of the source, connection loss, expiry",
    "'arrived while registered' is decided by step order; offers that arrived before a registration may or may not be reported to the new listener (the statement makes no claim)",
    "each registration uses its own listener object (sequential re-registration of the same object is generated)",
    "connection loss enters through ServiceDiscoveryProtocol.connection_lost and is followed by an idle point",
    "a deadline closer than RES to an idle point counts as reached (asyncio runs timers that are due within its clock resolution)",
]
BUDGET = {"quick": {"examples": 16000, "shrink": 300}, "thorough": {"examples": 640000, "shrink": 2000}}
ENUM_LEN = {"quick": 4, "thorough": 6}
EXHAUSTIVE = {"quick": "all 11^4 = 14641 histories of length 4 over the 8-event + 3-timing alphabet, each with and without a second filtered listener and appended to 3 start histories in which offers arrived or were withdrawn while nobody watched",
              "thorough": "all 11^6 = 1771561 histories of length 6 over the 8-event + 3-timing alphabet, each with and without a second filtered listener and appended to 3 start histories in which offers arrived or were withdrawn while nobody watched"}

W = [0xFFFF, 0xFF, 0xFFFFFFFF]
SERVICES = [(s, i, m, n) for s in (0x1000, 0x2000) for i in (0x0101, 0x0102) for m in (1, 2) for n in (0x10000,)] + [(0x1000, 0x0101, 1, 0x10007)]
INF = 0xFFFFFF
NFILL = 64
CROWD0 = 100


def svc(i):
    """service #i: the 9 services the filters are about, then filler services (to make messages of many entries)"""
    if 0 <= i < len(SERVICES):
        return SERVICES[i]
    if len(SERVICES) <= i < len(SERVICES) + NFILL:
        return (0x6000 + i, 1, 1, 0x10000)
    return SERVICES[i % len(SERVICES)]

# ----------------------------------------------------------------------------- enumeration
ALPHA = ["o1", "oinf", "stop", "rb+o", "rb", "lost", "watch", "unwatch", "T-q", "T+q", "+0.5"]


# start states the exhaustive words are appended to: besides the empty history, histories in which the listener has
# gone and offers went on arriving (or were withdrawn) while nobody watched
PRELUDES = [["watch", "o1", "unwatch", "o1"], ["watch", "oinf", "unwatch", "stop"], ["watch", "o1", "unwatch", "+0.5", "oinf"]]


def enum_size(tier):
    return (2 + len(PRELUDES)) * len(ALPHA) ** ENUM_LEN[tier]


def _alpha_steps(word):
    steps = []
    when = ["d", 0.01]
    for a in word:
        if a == "T-q":
            when = ["t", 0, "-q"]
            continue
        if a == "T+q":
            when = ["t", 0, "+q"]
            continue
        if a == "+0.5":
            when = ["d", 0.5]
            continue
        if a in ("o1", "oinf", "stop", "rb+o", "rb"):
            ent = {"o1": [{"t": "offer", "s": 0, "ttl": 1}], "oinf": [{"t": "offer", "s": 0, "ttl": INF}],
                   "stop": [{"t": "stop", "s": 0}], "rb+o": [{"t": "offer", "s": 0, "ttl": 1}], "rb": [{"t": "find"}]}[a]
            steps.append({"op": "msg", "src": 0, "mc": False, "entries": ent, "sess": "reset" if a.startswith("rb") else "next", "when": when})
        elif a == "lost":
            steps.append({"op": "lost", "when": when})
        elif a == "watch":
            steps.append({"op": "watchall", "l": 0, "when": when})
        else:
            steps.append({"op": "unwatchall", "l": 0, "when": when})
        when = ["d", 0.01]
    return steps


def enum_case(tier, idx):
    idx, variant = divmod(idx, 2 + len(PRELUDES))
    word = []
    for _ in range(ENUM_LEN[tier]):
        idx, r = divmod(idx, len(ALPHA))
        word.append(ALPHA[r])
    if variant >= 2:
        return {"steps": _alpha_steps(PRELUDES[variant - 2] + word)}
    # a listener that watches from the start, so that short histories are not all trivial
    # even indexes: a second listener with a filter watches from the start; odd: only the watch-all listener of the alphabet
    pre = [{"op": "watch", "l": 1, "filter": [0x1000, 0x0101, 1, 0xFFFFFFFF], "when": ["d", 0.01]}] if variant == 0 else []
    return {"steps": pre + _alpha_steps(word)}


# ----------------------------------------------------------------------------- random histories
when_st = st.one_of(
    st.tuples(st.just("d"), st.sampled_from([0.0, 0.01, 0.25, 0.5, 1.0, 2.0, 3.0])).map(list),
    st.tuples(st.just("t"), st.integers(0, 2), st.sampled_from(["-4", "-q", "+q", "+4", "half"])).map(list),
    st.just(["s"]),
)


@st.composite
def _entry(draw):
    t = draw(st.sampled_from(["offer", "offer", "offer", "stop", "find"]))
    e = {"t": t}
    if t != "find":
        e["s"] = draw(st.integers(0, len(SERVICES) - 1))
    if t == "offer":
        e["ttl"] = draw(st.sampled_from([1, 1, 2, 3, 0xFFFFFE, INF]))
    return e


@st.composite
def _step(draw):
    op = draw(st.sampled_from(["msg"] * 12 + ["watch", "watch", "unwatch", "watchall", "unwatchall", "lost"] * 2 + ["crowd"]))
    s = {"op": op, "when": draw(when_st)}
    if op == "crowd":
        # `n` further peers send one SD message each (their next one)
        s.update(n=draw(st.sampled_from([5, 17, 33, 70, 140])), mc=draw(st.booleans()))
    if op == "msg":
        # sources 0-2 are unrelated, 3-7 differ from one of them in one component of the socket address only
        s.update(src=draw(st.sampled_from([0, 1, 2, 0, 1, 2, 0, 1, 2, 3, 4, 5, 6, 7])), mc=draw(st.booleans()), entries=draw(st.lists(_entry(), min_size=1, max_size=3)),
                 sess=draw(st.sampled_from(["next", "next", "next", "next", "next", "next", "reset", "reset", "repeat", "repeat", "far"])))
        pad = draw(st.sampled_from([0, 0, 0, 0, 0, 0, 14, 16, 20, 33, 40]))
        if pad:
            # a message of many entries: offers of `pad` filler services in front of or behind the entries above
            fill = [{"t": "offer", "s": len(SERVICES) + j, "ttl": draw(st.sampled_from([INF, 3]))} for j in range(pad)]
            s["entries"] = fill + s["entries"] if draw(st.booleans()) else s["entries"] + fill
        if draw(st.integers(0, 9)) == 0:
            s["unicast"] = False
    elif op in ("watch", "unwatch", "watchall", "unwatchall"):
        s["l"] = draw(st.integers(0, 3))
        if op == "watch":
            sv = SERVICES[draw(st.integers(0, len(SERVICES) - 1))]
            s["filter"] = [sv[0]] + [w if draw(st.booleans()) else v for v, w in zip(sv[1:], W)]
    return s


def strategy(tier):
    return st.builds(lambda steps: {"steps": steps}, st.lists(_step(), min_size=1, max_size=14))


def fixed_cases(tier):
    w = {"op": "watch", "l": 0, "filter": [0x1000, 0xFFFF, 0xFF, 0xFFFFFFFF], "when": ["d", 0.01]}
    o = lambda ttl, sess="next", when=None, s=0: {"op": "msg", "src": 0, "mc": False, "sess": sess, "entries": [{"t": "offer", "s": s, "ttl": ttl}], "when": when or ["d", 0.1]}  # noqa: E731
    stop = {"op": "msg", "src": 0, "mc": False, "sess": "next", "entries": [{"t": "stop", "s": 0}], "when": ["d", 0.1]}
    return [
        {"steps": [w, o(INF), o(INF, "reset")]},                       # D1: reboot evidence + offer in one message
        {"steps": [w, o(1), o(1, when=["t", 0, "-q"])]},                # D1: offer in the iteration of the predecessor's expiry
        {"steps": [w, o(1), o(1, when=["t", 0, "+q"])]},
        {"steps": [w, o(INF), dict(stop, when=["d", 0.1]), {"op": "watch", "l": 1, "filter": [0x1000, 0x0101, 1, 0x10000], "when": ["s"]}]},  # D9
        {"steps": [w, o(INF), {"op": "unwatch", "l": 0, "when": ["d", 0.1]}, stop, dict(w, l=2)]},
        {"steps": [{"op": "watchall", "l": 0, "when": ["d", 0.01]}, o(INF), {"op": "unwatchall", "l": 0, "when": ["d", 0.1]}, stop,
                   {"op": "watchall", "l": 2, "when": ["d", 0.1]}]},  # D10: StopOffer while nobody watches
        {"steps": [w, o(1), {"op": "watch", "l": 1, "filter": [0x1000, 0x0101, 1, 0x10000], "when": ["t", 0, "-q"]}]},  # D9: register in the iteration of an expiry
        # D12: a re-offer with a shorter TTL arrives while nobody watches; the entry found earlier must not outlive it
        {"steps": [{"op": "watchall", "l": 0, "when": ["d", 0.01]}, o(INF), {"op": "unwatchall", "l": 0, "when": ["d", 0.1]}, o(1), {"op": "watchall", "l": 2, "when": ["d", 0.1]}]},
        {"steps": [{"op": "watchall", "l": 0, "when": ["d", 0.01]}, o(3), {"op": "unwatchall", "l": 0, "when": ["d", 0.1]}, o(1), {"op": "watchall", "l": 2, "when": ["d", 0.1]}, {"op": "lost", "when": ["d", 2.0]}]},
        {"steps": [w, o(INF), o(INF, s=1), o(INF, "reset", s=2)]},      # reboot: old A,B stopped before new C offered
    ]


# ----------------------------------------------------------------------------- model + run
class Model:
    def __init__(self):
        self.sessions = {}
        self.live = {}        # (src, key) -> deadline or None (infinite)
        self.last_offer = {}  # (src, key) -> step index of the most recent offer since the last withdrawal
        self.recent = {}      # (src, key) -> deadlines of dropped finite entries (for the exact-RES rounding case)

    def drop(self, p):
        d = self.live.pop(p, None)
        if d is not None:
            self.recent.setdefault(p, []).append(d)
        self.last_offer.pop(p, None)

    def expire(self, now):
        for p, d in list(self.live.items()):
            # 0.99: at virtual times around 0xFFFFFF s one ulp is 0.2 % of RES; a deadline exactly RES away is left to the
            # next idle point (the checks below skip entries inside the 2 RES window)
            if d is not None and d - now < 0.99 * RES:
                self.drop(p)

    def message(self, idx, now, src, mc, flag, sid, entries, unicast):
        self.expire(now)
        reboot = ref_detect(self.sessions, (src, mc), flag, sid)
        if reboot:
            for p in [p for p in self.live if p[0] == src]:
                self.drop(p)
        if unicast:
            for e in entries:
                if e["t"] == "offer":
                    p = (src, svc(e["s"]))
                    self.live[p] = None if e["ttl"] == INF else now + e["ttl"]
                    self.last_offer[p] = idx
                elif e["t"] == "stop":
                    self.drop((src, svc(e["s"])))
        return reboot


def run_case(case):
    steps = case["steps"]
    log = []
    feats = {"rb_offer": False, "near": False, "watch_found": False}
    with Sim() as sim:
        prot = make_sd(sim)
        model = Model()
        sess = {}
        listeners = {}   # l -> ClientRec
        reg = {}         # l -> (filter or "all", step index)
        seen = [0]
        latest = {}      # (l, key, src) -> kind
        last_group_msgs = []

        def lname(name):
            return int(name[1:])

        def scan():
            # (1) strict alternation, starting with offered
            for t, name, kind, key, src in log[seen[0]:]:
                k = (lname(name), key, src)
                prev = latest.get(k)
                exp = "offered" if prev in (None, "stopped") else "stopped"
                require(kind == exp, "C05.alternation",
                        lambda: f"listener {name} got '{kind}' for service {key} from {src} at t={t:.6f} after '{prev}'; its calls: {[(round(x[0], 6), x[2]) for x in log if x[1] == name and x[3] == key and x[4] == src]}")
                latest[k] = kind
            seen[0] = len(log)

        def check_idle():
            now = sim.now
            model.expire(now)
            scan()
            for l, (flt, ridx) in reg.items():
                for (ll, key, src), kind in latest.items():
                    if ll != l or kind != "offered":
                        continue
                    d = model.live.get((src, key), "gone")
                    if d == "gone" and any(abs(x - now) < 1.02 * RES for x in model.recent.get((src, key), ())):
                        continue   # its deadline is exactly one clock resolution away: rounding decides whether it fired
                    if d == "gone":
                        require(False, "C05.stale-offered",
                                f"listener L{l}'s latest notification for {key} from {src} is 'offered' at idle t={now:.6f}, but the source's offer is not live (withdrawn, rebooted, expired or connection lost)")
                for p, d in model.live.items():
                    src, key = p
                    if d is not None and d - now < 2 * RES:
                        continue  # inside the simultaneity window
                    matches = flt == "all" or ref_match(flt, key, True, False)
                    if matches and model.last_offer.get(p, -1) > ridx:
                        require(latest.get((l, key, src)) == "offered", "C05.missing-offered",
                                lambda: f"a live offer for {key} from {src} arrived (step {model.last_offer[p]}) while L{l} was registered (since step {ridx}) but its latest notification is {latest.get((l, key, src))!r} at idle t={now:.6f}")

        def execute(i, s):
            op = s["op"]
            if op == "crowd":
                mc = bool(s.get("mc"))
                for k in range(max(0, min(300, int(s.get("n", 0))))):
                    src = peer_addr(CROWD0 + k)
                    flag, sid = sess.get((src, mc), (True, 0))
                    flag, sid = (flag, sid + 1) if sid < 0xFFFF else (False, 1)
                    sess[(src, mc)] = (flag, sid)
                    model.message(i, sim.now, src, mc, flag, sid, [], True)
                    prot.datagram_received(sd_bytes([{"t": "find", "svc": 0x7777}], sid, reboot=flag), src, mc)
            elif op == "msg":
                src = peer_addr(s["src"] % 8)
                mc = bool(s["mc"])
                k = (src, mc)
                flag, sid = sess.get(k, (True, 0))
                if s.get("sess") == "reset":
                    flag, sid = True, 1
                elif s.get("sess") == "repeat" and sid >= 1:
                    pass
                elif s.get("sess") == "far" and sid < 0x6000:
                    sid += 0x9000    # the source has sent many messages we did not see (ids need only increase)
                else:
                    flag, sid = (flag, sid + 1) if sid < 0xFFFF else (False, 1)
                sess[k] = (flag, sid)
                unicast = s.get("unicast", True)
                ents = [dict(e) for e in s["entries"]]
                wire_entries = []
                for e in ents:
                    if e["t"] == "find":
                        wire_entries.append({"t": "find", "svc": 0x7777})
                    else:
                        sv = svc(e["s"])
                        e["ttl"] = max(1, min(INF, e.get("ttl", 1))) if e["t"] == "offer" else 0
                        wire_entries.append({"t": e["t"], "svc": sv[0], "inst": sv[1], "major": sv[2], "minor": sv[3], "ttl": e.get("ttl", 0)})
                before_live = [p for p in model.live if p[0] == src]
                reboot = model.message(i, sim.now, src, mc, flag, sid, ents, unicast)
                if reboot and unicast and any(e["t"] == "offer" for e in ents):
                    feats["rb_offer"] = True
                last_group_msgs.append((src, reboot and unicast, ents, before_live))
                prot.datagram_received(sd_bytes(wire_entries, sid, reboot=flag, unicast=unicast), src, mc)
            elif op in ("watch", "watchall"):
                l = s["l"]
                if l in reg:
                    return
                lst = listeners.setdefault(l, ClientRec(sim, log, f"L{l}"))
                if model.live:
                    feats["watch_found"] = True
                if op == "watch":
                    f = s["filter"]
                    reg[l] = (list(f), i)
                    prot.discovery.watch_service(cfg.Service(f[0], f[1], f[2], f[3]), lst)
                else:
                    reg[l] = ("all", i)
                    prot.discovery.watch_all_services(lst)
            elif op in ("unwatch", "unwatchall"):
                l = s["l"]
                if l not in reg:
                    return
                flt, _ = reg.pop(l)
                if model.live:
                    feats["watch_found"] = True
                if flt == "all":
                    prot.discovery.stop_watch_all_services(listeners[l])
                else:
                    prot.discovery.stop_watch_service(cfg.Service(*flt), listeners[l])
            elif op == "lost":
                for p in list(model.live):
                    model.drop(p)
                prot.connection_lost(None)

        def after_group(i0, i1):
            # (5) a reboot revealed by a message: stops for everything learnt earlier precede that message's offers
            start = after_group.mark
            after_group.mark = len(log)
            msgs = list(last_group_msgs)
            del last_group_msgs[:]
            if len(msgs) != 1 or i1 - i0 != 1:
                return
            src, reboot, ents, before_live = msgs[0]
            if not reboot or not before_live or any(e["t"] == "stop" for e in ents) or not any(e["t"] == "offer" for e in ents):
                return
            offered_seen = {}
            for t, name, kind, key, s_ in log[start:]:
                if s_ != src:
                    continue
                if kind == "offered":
                    offered_seen[name] = key
                elif name in offered_seen:
                    require(False, "C05.reboot-order",
                            f"listener {name}: 'stopped' for {key} from {src} was reported after 'offered' for {offered_seen[name]} of the same reboot-revealing message")

        after_group.mark = 0
        sim.idle_hooks.append(check_idle)
        for s in steps:
            w = s.get("when", ["d", 0.01])
            if w[0] == "t" and w[2] in ("-q", "+q"):
                feats["near"] = True
        hist.drive(sim, steps, execute, after_group, barrier=lambda st_: st_["op"] == "lost")
        # run out: every finite TTL <= 3 s class expires; the 0xFFFFFE class and infinite stay
        sim.advance(3.5)
        sim.advance(1.0)
        check_idle()
        require(not sim.loop.errors, "C05.loop-error", lambda: str(sim.loop.errors[:2]))
    nontrivial = feats["rb_offer"] or feats["near"] or feats["watch_found"]
    return ok(nontrivial and bool(log), [f"rb+offer={int(feats['rb_offer'])}", f"near-deadline={int(feats['near'])}",
                                         f"watch-while-found={int(feats['watch_found'])}", f"calls={'0' if not log else '1+'}"])
