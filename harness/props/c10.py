"""C10 - Offer lifecycle: wait, repetition and cyclic phases; nothing follows a StopOffer."""
from __future__ import annotations

import collections

from hypothesis import strategies as st

from .. import hist, wire
from ..engine import ok, require
from ..simkit import (ADDRS, MCAST, FakeTransport, HarnessError, ServerRec, Sim, cfg, desc_semantic, install_random, late, lib_option, make_sd,
                      sd, sd_bytes, sent_entries, service, timings)
from ..vloop import RES

PID = "C10"
RULE = (
    "exhaustive: every script of bounded length over {start, stop, multicast/unicast Find, stop_announce, announce} x timing prefixes relative to the next library timer, for two timing configurations; random: cases = timing configuration (initial-delay window from {0,0.01,0.1,1}, repetitions 0..4, base delay from "
    "{0.01,0.05,0.2}, cyclic period from {none,0.5,1,2}, TTL from {1,3,inf}, collection timeout from {0,0.005,0.05}, "
    "request-response window, drawn uniform fractions; given as one Timings object or as separate objects for the protocol and the instances whose role-foreign parameters differ), 1..3 instances with different ids and option runs, with or without declared eventgroups, and a script "
    "of announcer start / stop (also twice) / announce / stop_announce / move (withdrawn and announced again as a new object with other endpoints) / connection-lost / FindService datagrams "
    "(unicast and multicast), every step placed by delay or relative to a pending library timer (-4RES, -RES/4, +RES/4, "
    "+4RES, halfway) - in particular a multicast Find shortly before a stop; plus deterministic probes (stop twice, "
    "connection_lost after stop, SimpleService.start_announce/stop_announce against a real announcer). non-trivial = a "
    "stop/start placed relative to a scheduled transmission, or a Find answer pending at a stop, or >= 2 instances; "
    "distinct = distinct case JSON"
)
ASSUMPTIONS = [
    "'has offered' = the first offer was queued for sending (seen through a record-and-forward wrapper of announcer.queue_send); with a non-zero collection timeout an offer and the StopOffer that follows within the window may share one datagram",
    "the schedule is checked reactively: every gap between consecutive queued multicast offers of a run equals the configured delay; the first equals the drawn initial delay",
    "a non-cyclic instance stopped before its first offer may or may not send a StopOffer (the statement only speaks about cyclic instances there)",
    "start() is only called on a stopped announcer (documented precondition); stop() is called in any state",
]
BUDGET = {"quick": {"examples": 16000, "shrink": 300}, "thorough": {"examples": 480000, "shrink": 2000}}
INF = 0xFFFFFF

OPTS = [
    ([dict(k="ip", type=0x04, addr="10.0.0.1", proto=17, port=30501)], []),
    ([dict(k="ip", type=0x06, addr="2001:db8::1", proto=6, port=30502)], [dict(k="cfg", items=[["a", "b"]])]),
    ([], []),
]
# the endpoints an instance moves to when it is withdrawn and announced again as a new object ("move")
OPTS_ALT = [
    ([dict(k="ip", type=0x04, addr="10.0.0.1", proto=17, port=30601)], [dict(k="lb", prio=1, weight=2)]),
    ([dict(k="ip", type=0x06, addr="2001:db8::1", proto=17, port=30502)], []),
    ([dict(k="ip", type=0x04, addr="10.0.0.1", proto=6, port=30503)], []),
]
INST = [(0x4000, 0x0101, 1, 0x10007), (0x4000, 0x0102, 1, 0), (0x5000, 0x0101, 3, 0x99999)]
EGS = [frozenset({1, 2}), frozenset({7}), frozenset()]


@st.composite
def _timing(draw):
    a, b = sorted([draw(st.sampled_from([0, 0.01, 0.1, 1])), draw(st.sampled_from([0, 0.01, 0.1, 1]))])
    ra, rb = sorted([draw(st.sampled_from([0.003, 0.02, 0.3])), draw(st.sampled_from([0.003, 0.02, 0.3]))])
    return dict(imin=a, imax=b, reps=draw(st.integers(0, 4)), base=draw(st.sampled_from([0.01, 0.05, 0.2])),
                cyc=draw(st.sampled_from([0, 0.5, 1, 2])), ttl=draw(st.sampled_from([1, 3, INF])),
                coll=draw(st.sampled_from([0, 0, 0.005, 0.05])), rmin=ra, rmax=rb)


when_st = st.one_of(
    st.tuples(st.just("d"), st.sampled_from([0.0, 0.001, 0.004, 0.02, 0.1, 0.3, 1.0, 2.5])).map(list),
    st.tuples(st.just("t"), st.integers(0, 3), st.sampled_from(["-4", "-q", "+q", "+4", "half"])).map(list),
    st.tuples(st.just("t"), st.integers(0, 3), st.sampled_from(["-4", "-q", "+q", "+4", "half"])).map(list),
    st.just(["s"]),
)


@st.composite
def _step(draw):
    op = draw(st.sampled_from(["start", "stop", "stop", "find", "find", "find", "announce", "unannounce", "lost", "wait"] * 2 + ["move"]))
    s = {"op": op, "when": draw(when_st)}
    if op == "move":
        s["i"] = draw(st.integers(0, 2))
    if op == "find":
        s.update(mc=draw(st.booleans()), i=draw(st.integers(0, 2)), wild=draw(st.booleans()), src=draw(st.integers(0, 1)))
    elif op in ("announce", "unannounce"):
        s["i"] = draw(st.integers(0, 2))
    return s


@st.composite
def _case(draw):
    steps = [{"op": "start", "when": ["d", 0.01]}] + draw(st.lists(_step(), min_size=1, max_size=10))
    return {"kind": "script", "tm": draw(_timing()), "n": draw(st.integers(1, 3)), "fr": draw(st.lists(st.sampled_from([0.0, 0.25, 0.5, 1.0]), min_size=1, max_size=4)),
            "steps": steps, "eg": draw(st.booleans()), "decoy": draw(st.booleans()), "late": draw(st.booleans())}


def strategy(tier):
    return _case()


ALPHA = ["start", "stop", "find-mc", "find-uc", "unannounce", "announce", "T-q", "T+q", "T+4", "+0.3"]
ENUM_LEN = {"quick": 4, "thorough": 5}
ENUM_TM = [dict(imin=0.01, imax=0.1, reps=2, base=0.05, cyc=1, ttl=3, coll=0.005, rmin=0.02, rmax=0.3),
           dict(imin=0, imax=0, reps=1, base=0.05, cyc=0, ttl=INF, coll=0, rmin=0.003, rmax=0.02),
           # a long initial wait and a long request-response window: a delayed answer can outlive a stop and a restart
           dict(imin=0.4, imax=0.4, reps=1, base=0.05, cyc=1, ttl=3, coll=0, rmin=0.25, rmax=0.25)]
EXHAUSTIVE = {"quick": "all 10^4 scripts of length 4 over {start, stop, multicast Find, unicast Find, stop_announce, announce} x timing prefixes {next timer -RES/4, +RES/4, +4RES, +0.3 s}, for a cyclic configuration with collection timeout, a non-cyclic one without and one with a long initial wait and request-response delay, two instances",
              "thorough": "all 10^5 scripts of length 5 over the same alphabet and configurations"}


def enum_size(tier):
    return len(ENUM_TM) * len(ALPHA) ** ENUM_LEN[tier]


def enum_case(tier, idx):
    idx, ci = divmod(idx, len(ENUM_TM))
    steps = [{"op": "start", "when": ["d", 0.01]}, {"op": "wait", "when": ["d", 0.2 if ci < 2 else 0.6]}]
    when = ["d", 0.01]
    for _ in range(ENUM_LEN[tier]):
        idx, r = divmod(idx, len(ALPHA))
        a = ALPHA[r]
        if a in ("T-q", "T+q", "T+4", "+0.3"):
            when = {"T-q": ["t", 0, "-q"], "T+q": ["t", 0, "+q"], "T+4": ["t", 0, "+4"], "+0.3": ["d", 0.3]}[a]
            continue
        if a.startswith("find"):
            steps.append({"op": "find", "mc": a == "find-mc", "i": 0, "wild": True, "src": 0, "when": when})
        elif a in ("announce", "unannounce"):
            steps.append({"op": a, "i": 1, "when": when})
        else:
            steps.append({"op": a, "when": when})
        when = ["d", 0.01]
    return {"kind": "script", "tm": ENUM_TM[ci], "n": 2, "fr": [0.5, 1.0], "steps": steps}


def fixed_cases(tier):
    out = [{"kind": "helper"}, {"kind": "helper", "offered": False}]
    base = dict(imin=0.01, imax=0.1, reps=2, base=0.05, cyc=1, ttl=3, coll=0.005, rmin=0.02, rmax=0.3)
    find = {"op": "find", "mc": True, "i": 0, "wild": False, "src": 0}
    for cyc in (0, 1):
        for coll in (0, 0.005):
            tm = dict(base, cyc=cyc, coll=coll)
            out += [
                # D3: a multicast Find shortly before a stop: its delayed answer is pending at the stop
                {"kind": "script", "tm": tm, "n": 1, "fr": [0.5, 1.0], "steps": [{"op": "start", "when": ["d", 0.01]}, dict(find, when=["d", 1.5]), {"op": "stop", "when": ["d", 0.01]}, {"op": "wait", "when": ["d", 1.0]}]},
                # D4: a stopped instance is asked
                {"kind": "script", "tm": tm, "n": 2, "fr": [0.5], "steps": [{"op": "start", "when": ["d", 0.01]}, {"op": "stop", "when": ["d", 1.5]}, dict(find, mc=False, when=["d", 0.1]), dict(find, when=["d", 0.1]), {"op": "wait", "when": ["d", 1.0]}]},
                # D5: stop twice, connection_lost after stop
                {"kind": "script", "tm": tm, "n": 1, "fr": [0.5], "steps": [{"op": "start", "when": ["d", 0.01]}, {"op": "stop", "when": ["d", 0.5]}, {"op": "stop", "when": ["d", 0.1]}, {"op": "lost", "when": ["d", 0.1]}, {"op": "start", "when": ["d", 0.1]}, {"op": "wait", "when": ["d", 1.0]}]},
                # stop in every phase, relative to the next scheduled transmission
                *[{"kind": "script", "tm": tm, "n": 1, "fr": [0.5], "steps": [{"op": "start", "when": ["d", 0.01]}] + [{"op": "wait", "when": ["t", 0, "+4"]}] * k + [{"op": "stop", "when": ["t", 0, off]}, {"op": "wait", "when": ["d", 2.5]}]}
                  for k in range(5) for off in ("-4", "-q", "+q", "+4")],
            ]
    # an answer to a FindService still waits in the requester's send collector when the instance is stopped
    for cyc in (0, 1):
        tm = dict(base, cyc=cyc, coll=0.05, rmin=0.003, rmax=0.02)
        for mc in (False, True):
            out.append({"kind": "script", "tm": tm, "n": 1, "fr": [0.5], "steps": [{"op": "start", "when": ["d", 0.01]}, dict(find, mc=mc, when=["d", 1.5]), {"op": "stop", "when": ["d", 0.03]}, {"op": "wait", "when": ["d", 1.0]}]})
    return out


class _Svc(service.SimpleService):
    service_id = 0x6000
    version_major = 1
    version_minor = 2


def _run_helper(case):
    """SimpleService.start_announce / stop_announce against a real announcer"""
    with Sim() as sim:
        install_random([0.5])
        tm = timings(CYCLIC_OFFER_DELAY=1, ANNOUNCE_TTL=3)
        prot = make_sd(sim, tm)
        prot.announcer.start()
        svc = _Svc(5)
        svc.transport = FakeTransport(sim, ("10.0.0.1", 30501))
        svc.register_eventgroup(service.SimpleEventgroup(svc, 1))
        svc.start_announce(prot.announcer)
        require(len(prot.announcer.announcing_services) == 1, "C10.helper-start", "start_announce did not register an instance")
        if case.get("offered", True):
            sim.advance(0.5)
        n0 = len(prot.transport.sent)
        try:
            svc.stop_announce(prot.announcer)
        except Exception as exc:  # noqa: BLE001
            require(False, "C10.helper-stop-raises", f"SimpleService.stop_announce raised {type(exc).__name__}: {exc}")
        sim.advance(0.5)
        require(not prot.announcer.announcing_services, "C10.helper-stop-keeps-instance", "the instance is still announced after stop_announce")
        stops = [e for e in sent_entries(prot.transport, n0) if e["type"] == wire.OFFER and e["ttl"] == 0]
        offers = [e for e in sent_entries(prot.transport, n0) if e["type"] == wire.OFFER and e["ttl"] != 0]
        require(len(stops) == (1 if case.get("offered", True) else 0) and not offers, "C10.helper-stop-offers", lambda: f"{len(stops)} StopOffer, {len(offers)} offers after stop_announce")
        require(not sim.loop.errors, "C10.loop-error", lambda: str(sim.loop.errors[:2]))
    return ok(True, ["kind=helper"])


def run_case(case):
    if case.get("kind") == "helper":
        return _run_helper(case)
    t = dict(case["tm"])
    t["ttl"] = t["ttl"] if t["ttl"] in (1, 3, INF) else 1
    t["imin"], t["imax"] = min(t["imin"], t["imax"]), max(t["imin"], t["imax"])
    t["rmin"], t["rmax"] = min(t["rmin"], t["rmax"]), max(t["rmin"], t["rmax"])
    if (t["rmin"], t["rmax"]) == (t["imin"], t["imax"]):
        t["rmax"] = t["rmax"] + 0.007   # keep the two windows distinguishable for the stub bookkeeping
    n = max(1, min(3, case.get("n", 1)))
    steps = case["steps"]
    feats = {"rel": False, "pending_find": False}
    with Sim() as sim:
        stub = install_random(case.get("fr") or [0.5])
        tm = timings(INITIAL_DELAY_MIN=t["imin"], INITIAL_DELAY_MAX=t["imax"], REPETITIONS_MAX=t["reps"], REPETITIONS_BASE_DELAY=t["base"],
                     CYCLIC_OFFER_DELAY=t["cyc"], ANNOUNCE_TTL=t["ttl"], SEND_COLLECTION_TIMEOUT=t["coll"],
                     REQUEST_RESPONSE_DELAY_MIN=t["rmin"], REQUEST_RESPONSE_DELAY_MAX=t["rmax"])
        tm_prot = tm_inst = tm
        tm_inst_same = not case.get("decoy")
        if case.get("decoy"):
            # the protocol object and the instances get Timings objects of their own: each carries the case's values for the
            # parameters its role reads and unrelated ones for the parameters that belong to the other role
            tm_prot = timings(INITIAL_DELAY_MIN=0.013, INITIAL_DELAY_MAX=0.017, REPETITIONS_MAX=5, REPETITIONS_BASE_DELAY=0.011,
                              CYCLIC_OFFER_DELAY=0.37, ANNOUNCE_TTL=7, SEND_COLLECTION_TIMEOUT=t["coll"],
                              REQUEST_RESPONSE_DELAY_MIN=t["rmin"], REQUEST_RESPONSE_DELAY_MAX=t["rmax"])
            tm_inst = timings(INITIAL_DELAY_MIN=t["imin"], INITIAL_DELAY_MAX=t["imax"], REPETITIONS_MAX=t["reps"], REPETITIONS_BASE_DELAY=t["base"],
                              CYCLIC_OFFER_DELAY=t["cyc"], ANNOUNCE_TTL=t["ttl"], SEND_COLLECTION_TIMEOUT=0.033,
                              REQUEST_RESPONSE_DELAY_MIN=0.041, REQUEST_RESPONSE_DELAY_MAX=0.043)
        # timings given to the constructors or assigned to the objects' Timings afterwards (before anything is started)
        ctor_arg, apply_p = late(tm_prot, bool(case.get("late")))
        prot = make_sd(sim, ctor_arg)
        tm_prot = apply_p(prot)            # the protocol object's live Timings
        tm_inst = tm_prot if tm_inst_same else late(tm_inst, bool(case.get("late")))[1]()
        ann = prot.announcer
        queued = []
        orig_queue = ann.queue_send

        def rec_queue(entry, remote=None):
            # attribute every queued entry to the instance's latest begun run (and whether that run is stopped)
            idx = next((j for j in range(n) if (entry.service_id, entry.instance_id) == INST[j][:2]), None)
            ri = len(runs[idx]) - 1 if idx is not None else -1
            stopped = ri < 0 or runs[idx][ri]["stop"] is not None
            queued.append((sim.now, entry, remote, idx, ri, stopped))
            return orig_queue(entry, remote=remote)

        ann.queue_send = rec_queue
        insts = []
        opt_hist = {}   # instance -> [(since, (run1, run2))]

        def make_instance(i, alt):
            sid, iid, maj, minor = INST[i]
            o1, o2 = (OPTS_ALT if alt else OPTS)[i]
            opt_hist.setdefault(i, []).append((sim.now, ([desc_semantic(o) for o in o1], [desc_semantic(o) for o in o2])))
            svc = cfg.Service(sid, iid, maj, minor, options_1=tuple(lib_option(o) for o in o1), options_2=tuple(lib_option(o) for o in o2),
                              eventgroups=EGS[i] if case.get("eg") else frozenset())
            return sd.ServiceInstance(svc, ServerRec(sim, [], f"I{i}"), ann, tm_inst)

        for i in range(n):
            insts.append(make_instance(i, False))
            ann.announce_service(insts[-1])
        announced = [True] * n
        started = [False]
        runs = {i: [] for i in range(n)}   # instance -> list of dict(t0, stop)
        pending_answers = []               # (due time, instance) of delayed find answers

        def running(i):
            return started[0] and announced[i]

        ann_order = list(range(n))   # mirrors announcer.announcing_services: start() walks it in this order
        seq = [0]

        def begin(i):
            seq[0] += 1
            runs[i].append({"t0": sim.now, "stop": None, "group": group[0], "seq": seq[0]})

        def finish(i):
            r = runs[i][-1]
            r["stop"] = sim.now
            r["never_ran"] = r["group"] == group[0]   # stopped inside the callback that started it: the task never ran
            if any(due >= sim.now - RES and ii == i for due, ii in pending_answers):
                feats["pending_find"] = True

        group = [0]
        orig_lost = ann.connection_lost

        def lost_forward(exc):
            for i in range(n):
                if running(i):
                    finish(i)
            started[0] = False
            group[0] += 1
            return orig_lost(exc)

        ann.connection_lost = lost_forward

        def next_group(i0, i1):
            group[0] += 1

        def execute(k, s):
            op = s["op"]
            if op == "start":
                if started[0]:
                    return
                for i in ann_order:
                    begin(i)
                started[0] = True
                ann.start()
            elif op == "stop":
                for i in range(n):
                    if running(i):
                        finish(i)
                started[0] = False
                try:
                    ann.stop()
                except Exception as exc:  # noqa: BLE001
                    require(False, "C10.stop-raises", f"ServiceAnnouncer.stop() raised {type(exc).__name__}: {exc} (stopping a stopped announcer must succeed)")
            elif op == "lost":
                # the protocol object defers the announcer's connection_lost by one iteration; the model's stop
                # happens when that call actually runs (see lost_forward)
                prot.connection_lost(None)
            elif op == "announce":
                i = s.get("i", 0) % n
                if announced[i]:
                    return
                announced[i] = True
                ann_order.append(i)
                if started[0]:
                    begin(i)
                ann.announce_service(insts[i])
            elif op == "unannounce":
                i = s.get("i", 0) % n
                if not announced[i]:
                    return
                if running(i):
                    finish(i)
                announced[i] = False
                ann_order.remove(i)
                ann.stop_announce_service(insts[i])
            elif op == "move":
                # the instance is withdrawn and a new ServiceInstance object with the same ids but other endpoints is announced
                i = s.get("i", 0) % n
                if not announced[i]:
                    return
                if running(i):
                    finish(i)
                ann_order.remove(i)
                ann.stop_announce_service(insts[i])
                insts[i] = make_instance(i, len(opt_hist[i]) % 2 == 1)
                ann_order.append(i)
                if started[0]:
                    begin(i)
                ann.announce_service(insts[i])
            elif op == "find":
                i = s.get("i", 0) % n
                sid, iid, maj, minor = INST[i]
                e = {"t": "find", "svc": sid, "inst": 0xFFFF if s.get("wild") else iid, "major": 0xFF if s.get("wild") else maj,
                     "minor": 0xFFFFFFFF if s.get("wild") else minor}
                ncalls = len(stub.calls)
                prot.datagram_received(sd_bytes([e], 1 + k, reboot=False), ADDRS[s.get("src", 0) % 2], bool(s.get("mc")))
                if len(stub.calls) > ncalls:
                    for j in range(n):
                        if INST[j][0] == sid:
                            pending_answers.append((sim.now + stub.calls[-1][2], j))

        for s in steps:
            w = s.get("when", ["d", 0.01])
            if w[0] == "t" and s["op"] in ("stop", "start", "unannounce", "announce", "lost"):
                feats["rel"] = True
        hist.drive(sim, steps, execute, next_group, barrier=lambda s_: s_["op"] == "lost")
        sim.advance(max(2.5, 2 * t["cyc"] + 0.5))
        end = sim.now
        sim.settle()
        require(not sim.loop.errors, "C10.loop-error", lambda: f"exception reached the event loop: {sim.loop.errors[:2]}")
        require(not sim.loop.task_errors(), "C10.loop-error", lambda: f"task failed: {sim.loop.task_errors()[:2]}")

        if not queued and any(e["type"] == wire.OFFER for e in sent_entries(prot.transport)):
            raise HarnessError("offers were transmitted but ServiceAnnouncer.queue_send was never called: the observation point of this check is gone")
        # ---- the uniform stub was asked for the configured windows only
        init_calls = []
        for a, b, v in stub.calls:
            if (a, b) == (t["imin"], t["imax"]):
                init_calls.append(v)
            else:
                require((a, b) == (t["rmin"], t["rmax"]), "C10.delay-window", lambda: f"random.uniform({a}, {b}) is neither the initial-delay window ({t['imin']}, {t['imax']}) nor the request-response window")
        # initial-delay draws happen in the first step of each offer task, i.e. in start order, except for runs that
        # were stopped inside the very callback that started them
        order = sorted((r["seq"], 0, i, ri) for i in range(n) for ri, r in enumerate(runs[i]))
        draws = list(init_calls)
        vmap = {}
        for _, _, i, ri in order:
            if runs[i][ri].get("never_ran"):
                continue
            vmap[(i, ri)] = draws.pop(0) if draws else None

        sent = sent_entries(prot.transport)
        delays = [t["base"] * (2 ** i) for i in range(t["reps"])]
        OFFER = sd.someip.header.SOMEIPSDEntryType.OfferService
        for i in range(n):
            sid, iid, maj, minor = INST[i]
            o1, o2 = OPTS[i]
            w_off = [e for e in sent if e["type"] == wire.OFFER and (e["service"], e["instance"]) == (sid, iid)]
            for e in w_off:
                require(e["major"] == maj and e["minor"] == minor, "C10.offer-content", lambda: f"offer entry {e} of instance {INST[i]}")
                if e["ttl"] != 0:
                    require(e["ttl"] == t["ttl"], "C10.offer-content", lambda: f"offer of {INST[i]} carries TTL {e['ttl']}, configured {t['ttl']}")
                    # the options of the instance object announced when the entry was queued (at most the collection timeout before it left)
                    hist_i = opt_hist[i]
                    allowed = [o for k_, (since, o) in enumerate(hist_i)
                               if since <= e["t"] + RES and (k_ + 1 == len(hist_i) or hist_i[k_ + 1][0] >= e["t"] - t["coll"] - RES)]
                    require([e["run1"], e["run2"]] in [list(o) for o in allowed], "C10.offer-options",
                            lambda: f"offer of {INST[i]} sent at t={e['t']:.6f} carries {e['run1']} / {e['run2']}, the instance announced then has {allowed}")
            q_i = [q for q in queued if q[3] == i and q[1].sd_type == OFFER]
            # nothing with a non-zero TTL while stopped - to anyone
            for tq, e, rem, _, ri, stopped in q_i:
                if e.ttl != 0:
                    require(not stopped, "C10.offer-while-stopped",
                            lambda: f"instance {INST[i]}: offer with TTL {e.ttl} queued for {rem or 'multicast'} at t={tq:.6f} while stopped (runs {[(round(r['t0'], 6), r['stop']) for r in runs[i]]})")
            # every queued entry leaves within the collection timeout (C15 checks this in depth)
            settled = sum(1 for q in q_i if q[0] <= end - t["coll"] - RES)
            require(settled <= len(w_off) <= len(q_i), "C10.queued-vs-sent", lambda: f"instance {INST[i]}: {len(q_i)} offer entries queued ({settled} of them more than the collection timeout ago), {len(w_off)} on the wire")
            for ri, r in enumerate(runs[i]):
                t0 = r["t0"]
                t1 = r["stop"] if r["stop"] is not None else end
                mc_q = [tq for tq, e, rem, _, rr, stopped in q_i if e.ttl != 0 and rem is None and rr == ri]
                for tq, e, rem, _, rr, stopped in q_i:
                    if rr == ri and e.ttl != 0 and rem is None:
                        pass
                # the first offer of a run is the scheduled one: no answer to a FindService leaves before it
                for tq, e, rem, _, rr, stopped in q_i:
                    if rr == ri and e.ttl != 0 and rem is not None:
                        require(mc_q and mc_q[0] <= tq + RES, "C10.offer-before-first-offer",
                                lambda: f"instance {INST[i]} started at {t0:.6f}: an offer with TTL {e.ttl} was queued for {rem} at t={tq:.6f}, before the run's first offer "
                                        f"({'at %.6f' % mc_q[0] if mc_q else 'never sent'}; initial-delay window [{t['imin']},{t['imax']}])")
                v = vmap.get((i, ri))
                for qi, tq in enumerate(mc_q):
                    if qi == 0:
                        require(v is not None and abs(tq - (t0 + v)) < RES, "C10.first-offer",
                                lambda: f"instance {INST[i]} started at {t0:.6f}: first offer queued at {tq:.6f}, expected {t0:.6f}+{v} (drawn from [{t['imin']},{t['imax']}])")
                        require(t["imin"] - RES <= tq - t0 <= t["imax"] + RES, "C10.first-offer", lambda: f"first offer after {tq - t0:.6f}s, window [{t['imin']},{t['imax']}]")
                    else:
                        d = delays[qi - 1] if qi - 1 < len(delays) else t["cyc"]
                        require(d and abs(tq - mc_q[qi - 1] - d) < RES, "C10.schedule",
                                lambda: f"instance {INST[i]}: offer #{qi + 1} queued {tq - mc_q[qi - 1]:.6f}s after the previous one, expected {d or 'none'} (repetitions {delays}, cyclic {t['cyc']}); queue times {[round(x - t0, 6) for x in mc_q]}")
                # multicast offers of the schedule go to the multicast group
                if mc_q:
                    k = len(mc_q)
                    d = delays[k - 1] if k - 1 < len(delays) else t["cyc"]
                    if d:
                        require(mc_q[-1] + d > t1 - RES, "C10.missing-offer",
                                lambda: f"instance {INST[i]}: offer #{k + 1} was due at {mc_q[-1] + d:.6f} (run {t0:.6f}..{t1:.6f}) but never queued; queue times {[round(x, 6) for x in mc_q]}")
                elif v is not None:
                    require(t0 + v > t1 - RES, "C10.missing-offer", lambda: f"instance {INST[i]}: first offer was due at {t0 + v:.6f} (run {t0:.6f}..{t1:.6f}) but never queued")
                r["offered"] = bool(mc_q)
            # StopOffers: attributed to stops by their virtual instant (a cancelled cyclic task sends it one iteration later)
            stop_times = sorted(set(r["stop"] for r in runs[i] if r["stop"] is not None))
            q_stops = [(tq, rem) for tq, e, rem, _, rr, stopped in q_i if e.ttl == 0]
            for tq, rem in q_stops:
                require(rem is None, "C10.stopoffer-destination", lambda: f"StopOffer of {INST[i]} queued for {rem}")
                require(any(abs(tq - ts) < RES for ts in stop_times), "C10.stopoffer-count", lambda: f"StopOffer of {INST[i]} queued at {tq:.6f}, no stop at that instant (stops {stop_times})")
            for ts in stop_times:
                rs = [r for r in runs[i] if r["stop"] is not None and abs(r["stop"] - ts) < RES]
                got = sum(1 for tq, rem in q_stops if abs(tq - ts) < RES)
                must = sum(1 for r in rs if r["offered"])
                may = must + (0 if t["cyc"] else sum(1 for r in rs if not r["offered"]))
                require(must <= got <= may, "C10.stopoffer-count" if got or not t["cyc"] or must else "C10.stopoffer-before-first-offer",
                        lambda: f"instance {INST[i]}: {got} StopOffer entries at the stop(s) at t={ts:.6f}; runs ending there had offered: {[r['offered'] for r in rs]} (cyclic={bool(t['cyc'])})")
                if got > may:
                    pass
            for e in w_off:
                if e["ttl"] == 0:
                    require(e["dest"] == MCAST, "C10.stopoffer-destination", lambda: f"StopOffer sent to {e['dest']}")
            for tq, e, rem, _, rr, stopped in q_i:
                if e.ttl != 0 and rem is None:
                    pass
            mc_wire = [e for e in w_off if e["ttl"] != 0 and e["dest"] == MCAST]
            # on the wire, no offer of a run may leave after that run's StopOffer (an entry that still waits in another
            # destination's send collector when the instance is stopped). Wire entries are matched to queue records per
            # destination in order (C15).
            per_dest_q = collections.defaultdict(list)
            for q in q_i:
                per_dest_q[MCAST if q[2] is None else q[2]].append(q)
            order = {}
            for n_, e in enumerate(sent):
                order[id(e)] = n_
            per_dest_w = collections.defaultdict(list)
            for e in w_off:
                per_dest_w[e["dest"]].append(e)
            stop_pos = {}   # run index -> transmission position of its StopOffer
            for dest, ws in per_dest_w.items():
                for e, q in zip(ws, per_dest_q.get(dest, [])):
                    if e["ttl"] == 0:
                        ts_ = q[0]
                        same = [ri for ri, r in enumerate(runs[i]) if r["stop"] is not None and abs(r["stop"] - ts_) < RES]
                        if len(same) == 1:   # several runs ending at one instant: the StopOffers can not be told apart
                            stop_pos.setdefault(same[0], order[id(e)])
            for dest, ws in per_dest_w.items():
                for e, q in zip(ws, per_dest_q.get(dest, [])):
                    if e["ttl"] != 0 and q[4] in stop_pos and order[id(e)] > stop_pos[q[4]]:
                        require(False, "C10.offer-after-stopoffer",
                                f"instance {INST[i]}: an offer with TTL {e['ttl']} queued at t={q[0]:.6f} for {dest} (run {q[4]}, stopped at {runs[i][q[4]]['stop']:.6f}) left at t={e['t']:.6f}, after the StopOffer of that stop")
            qm = [q for q in q_i if q[1].ttl != 0 and q[2] is None]
            require(sum(1 for q in qm if q[0] <= end - t["coll"] - RES) <= len(mc_wire) <= len(qm), "C10.offer-destination",
                    lambda: f"instance {INST[i]}: {len(mc_wire)} offers reached the multicast group, {len(qm)} were queued for it")
    nontrivial = feats["rel"] or feats["pending_find"] or n >= 2
    return ok(nontrivial, ["kind=script", f"instances={n}", f"cyclic={int(bool(t['cyc']))}", f"timeout={'0' if not t['coll'] else '>0'}",
                           f"rel-to-timer={int(feats['rel'])}", f"find-pending-at-stop={int(feats['pending_find'])}"])
