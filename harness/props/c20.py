"""C20 - Decoding canonicalises: decode-encode-decode equals decode."""
from __future__ import annotations

from hypothesis import strategies as st

from .. import strategies as S
from .. import wire
from ..engine import ok, require
from ..simkit import hdr, option_desc
from . import c01

PID = "C20"
RULE = (
    "cases = (a) SD payloads from an independent encoder that emits legal but non-canonical layouts (non-zero reserved "
    "bytes, trailing bytes after a configuration option's terminator, option types 0x00..0xFF with arbitrary payloads, "
    "unknown flag bits, unknown protocol numbers, unreferenced options, zero counts with arbitrary in-range indexes, "
    "overlapping runs, trailing bytes) followed by a mutation script (bit flips, byte sets, truncation, insertion, "
    "duplication, targeted rewrites of every length/count/index/type field), decoded as SD message, as SD entries and as "
    "SD options; (b) SOME/IP messages with mutated header bytes; every accepted input goes through decode-encode-decode. "
    "non-trivial = accepted and (re-encoded bytes differ from the consumed input, or unknown option / unknown flag bits / "
    "unreferenced options present); distinct = distinct case JSON"
)
EXHAUSTIVE = "all 65536 combinations of message-type byte x return-code byte in an otherwise valid SOME/IP message, all 256 option type bytes x 5 payload shapes and configuration strings of every length 1..255 (fixed cases)"
ASSUMPTIONS = [
    "kept information is compared field-wise through harness/wire.py's decoding of the input and of the re-encoded bytes",
    "inputs rejected by the decoder are out of scope here (C03)",
]
BUDGET = {"quick": {"examples": 16000, "shrink": 250}, "thorough": {"examples": 400000, "shrink": 1500, "extra_shards": 16}}
FUZZ_RUNS = {"quick": 0, "thorough": 400000}


@st.composite
def _case(draw):
    kind = draw(st.sampled_from(["sd", "sd", "sd", "someip"]))
    if kind == "someip":
        m = draw(c01.message(big=False))
        m["plen"] = min(m["plen"], 64)
        return {"kind": "someip", "msg": m, "suffix": draw(st.binary(max_size=8)).hex(), "mut": draw(S.mutation_script(2))}
    return {"kind": "sd", "sd": draw(S.raw_sd()), "mut": draw(S.mutation_script(2))}


def strategy(tier):
    return _case()


def fixed_cases(tier):
    out = []
    # every option type byte with a few payload lengths, one unreferenced + one referenced
    for t in range(256):
        for data in ("", "00", "0001020304", "00" + "11" * 8, "00" + "22" * 20):
            out.append({"kind": "sd", "mut": [], "sd": {"flags": 0xC0 | (t & 0x3F), "reserved": "0a0b0c", "tail": "",
                        "options": [{"raw": {"type": t, "data": data}}, {"raw": {"type": t ^ 0xFF, "data": "00aa"}}],
                        "entries": [dict(type=1, service=1, instance=1, major=1, ttl=3, minor=0, idx1=0, n1=1, idx2=1, n2=0)]}})
    # a configuration string of every length 1..255, bare key and key=value
    for d in S.cfg_length_sweep():
        out.append({"kind": "sd", "mut": [], "sd": {"flags": 0xC0, "reserved": "000000", "tail": "", "options": [{"desc": d}],
                    "entries": [dict(type=1, service=1, instance=1, major=1, ttl=3, minor=0, idx1=0, n1=1, idx2=0, n2=0)]}})
    return out


def enum_size(tier):
    return 256 * 256


def enum_case(tier, idx):
    # every value of the message-type byte x every value of the return-code byte of an otherwise valid message
    return {"kind": "someip-raw", "hex": wire.encode_someip(0x1234, 0x5678, 0x9ABC, 0xDEF0, 7, idx >> 8, idx & 0xFF, b"xyz").hex() + "aa"}


def _sem_opts(options):
    return [wire.option_semantic(o) for o in options]


def _check_option(buf, labels):
    try:
        v, rest = hdr.SOMEIPSDOption.parse(buf)
    except (hdr.ParseError, UnicodeDecodeError):
        return False, False
    b2 = v.build()
    v2, rest2 = hdr.SOMEIPSDOption.parse(bytes(b2))
    require(v2 == v and bytes(rest2) == b"", "C20.option-cycle", lambda: f"option {buf[:40].hex()} -> {v!r} -> {bytes(b2).hex()} -> {v2!r} rest={bytes(rest2).hex()}")
    consumed = bytes(buf[: len(buf) - len(rest)])
    try:
        wo = wire.decode_options_array(consumed)
    except wire.WireError:
        # the library accepted bytes the independent decoder calls malformed: whether to accept them is not
        # this property's question; the kept-information comparison is impossible, the value cycle was checked
        labels.append("independent-decoder-rejects-accepted-input")
        return True, False
    w2 = wire.decode_options_array(bytes(b2))
    require(_sem_opts(wo) == _sem_opts(w2) == [option_desc(v)], "C20.option-kept",
            lambda: f"input {consumed.hex()} means {_sem_opts(wo)}, re-encoded {bytes(b2).hex()} means {_sem_opts(w2)}, value {option_desc(v)}")
    return True, bytes(b2) != consumed


def extra(tier, seed, shard, st):
    import sys
    from ..fuzz import campaign
    campaign.run_shard(sys.modules[__name__], tier, seed, shard, st, runs=FUZZ_RUNS[tier], with_corpus=shard % 2 == 0)


def run_case(case):
    if case.get("kind") == "raw":
        # an input of the coverage-guided campaign: try it as SOME/IP message, as SD payload and as the payload of an SD message
        data = bytes.fromhex(case["hex"])
        r1 = run_case({"kind": "someip-raw", "hex": case["hex"]})
        r2 = run_case({"kind": "sd-raw", "hex": case["hex"]})
        try:
            f, _ = wire.decode_someip(data)
            r3 = run_case({"kind": "sd-raw", "hex": f["payload"].hex()})
        except wire.WireError:
            r3 = r2
        return ok(r1["nontrivial"] or r2["nontrivial"] or r3["nontrivial"], ["kind=raw"])
    labels = [f"kind={case['kind']}"]
    if case["kind"] == "someip-raw":
        data = bytes.fromhex(case["hex"])
        try:
            v, rest = hdr.SOMEIPHeader.parse(data)
        except hdr.ParseError:
            return ok(False, labels + ["rejected"])
        b2 = v.build()
        consumed = data[: len(data) - len(rest)]
        require(bytes(b2) == consumed, "C20.someip-bytes", lambda: f"consumed {consumed[:24].hex()} re-encoded {bytes(b2)[:24].hex()}")
        v2, r2 = hdr.SOMEIPHeader.parse(bytes(b2))
        require(v2 == v and bytes(r2) == b"", "C20.someip-cycle", lambda: f"{v} -> {v2}")
        return ok(True, labels + ["accepted"])

    if case["kind"] == "someip":
        m = case["msg"]
        raw = c01._wire_msg(m) + bytes.fromhex(case.get("suffix", ""))
        data = S.apply_mutations(raw, [(4, 4, "len"), (12, 1, "pv"), (14, 1, "mt"), (15, 1, "rc"), (13, 1, "iv")], case.get("mut", []))
        try:
            v, rest = hdr.SOMEIPHeader.parse(data)
        except hdr.ParseError:
            return ok(False, labels + ["rejected"])
        b2 = v.build()
        consumed = data[: len(data) - len(rest)]
        require(bytes(b2) == consumed, "C20.someip-bytes", lambda: f"consumed {consumed[:24].hex()} re-encoded {bytes(b2)[:24].hex()}")
        v2, r2 = hdr.SOMEIPHeader.parse(bytes(b2))
        require(v2 == v and bytes(r2) == b"", "C20.someip-cycle", lambda: f"{v} -> {v2} rest {len(r2)}")
        return ok(bool(case.get("mut")) or bool(rest), labels + ["accepted"])

    if case["kind"] == "sd-raw":
        data = bytes.fromhex(case["hex"])
        # option / entry starts of an arbitrary payload: walk it leniently
        fields = [(0, 2, "olen"), (0, 1, "etype"), (8, 1, "etype")]
        if len(data) >= 12:
            elen = int.from_bytes(data[4:8], "big")
            fields += [(8 + 16 * k, 1, "etype") for k in range(min(8, elen // 16))] + [(12 + elen, 2, "olen")]
        case = dict(case, sd={"options": [None] * 255})
    else:
        payload, fields = S.raw_sd_bytes(case["sd"])
        data = S.apply_mutations(payload, fields, case.get("mut", []))
    nontrivial = False

    # --- as single options (every option start of the un-mutated layout, on the mutated bytes) and as entries
    for off, width, kind in fields:
        if kind == "olen" and off < len(data):
            acc, changed = _check_option(data[off:], labels)
            nontrivial = nontrivial or (acc and changed)
        if kind == "etype" and off + 16 <= len(data):
            nopt = len(case["sd"]["options"])
            try:
                e, rest = hdr.SOMEIPSDEntry.parse(data[off:], nopt)
            except hdr.ParseError:
                continue
            eb = e.build()
            require(bytes(eb) == data[off : off + 16], "C20.entry-bytes", lambda: f"entry {data[off:off+16].hex()} re-encoded {bytes(eb).hex()}")
            e2, r2 = hdr.SOMEIPSDEntry.parse(bytes(eb), nopt)
            require(e2 == e and bytes(r2) == b"", "C20.entry-cycle", lambda: f"{e} -> {e2}")

    # --- as SD message
    try:
        v, rest = hdr.SOMEIPSDHeader.parse(data)
    except (hdr.ParseError, UnicodeDecodeError):
        return ok(nontrivial, labels + ["rejected"])
    try:
        b2 = bytes(v.build())
    except Exception as exc:  # noqa: BLE001
        require(False, "C20.rebuild-raises", f"decoded value can not be encoded again: {type(exc).__name__}: {exc}; input {data[:80].hex()}")
    v2, rest2 = hdr.SOMEIPSDHeader.parse(b2)
    require(v2 == v and bytes(rest2) == b"", "C20.sd-cycle", lambda: f"input {data[:80].hex()} re-encoded {b2[:80].hex()}: values differ or rest={bytes(rest2).hex()}")
    consumed = data[: len(data) - len(rest)]
    try:
        w1 = wire.decode_sd(consumed)
    except wire.WireError:
        return ok(nontrivial, labels + ["accepted", "independent-decoder-rejects-accepted-input"])
    w2 = wire.decode_sd(b2)
    require(w1["flags"] == w2["flags"], "C20.flags-kept", lambda: f"flags {w1['flags']:#x} -> {w2['flags']:#x}")
    require(_sem_opts(w1["options"]) == _sem_opts(w2["options"]), "C20.options-kept",
            lambda: f"options {_sem_opts(w1['options'])} -> {_sem_opts(w2['options'])}")
    require(w1["entries"] == w2["entries"], "C20.entries-kept", lambda: f"entries {w1['entries']} -> {w2['entries']}")
    require(w2["reserved"] == "000000" and w2["rest"] == b"", "C20.canonical", lambda: f"re-encoded reserved={w2['reserved']}")
    # resolved path
    res = v.resolve_options()
    try:
        b3 = bytes(res.assign_option_indexes().build())
    except Exception as exc:  # noqa: BLE001
        require(False, "C20.resolved-rebuild-raises", f"{type(exc).__name__}: {exc}; input {data[:80].hex()}")
    v3, rest3 = hdr.SOMEIPSDHeader.parse(b3)
    res3 = v3.resolve_options()
    require(bytes(rest3) == b"" and res3.entries == res.entries and
            all(a.options_1 == b.options_1 and a.options_2 == b.options_2 for a, b in zip(res3.entries, res.entries)),
            "C20.resolved-cycle", lambda: f"resolved entries differ after resolve/assign/build/parse/resolve; input {data[:80].hex()}")
    have = [option_desc(o) for o in v3.options]
    for o in v.options:
        require(option_desc(o) in have, "C20.option-lost", lambda: f"option {option_desc(o)} of the array is gone after the resolved cycle")
    require((v3.flag_reboot, v3.flag_unicast, v3.flags_unknown) == (v.flag_reboot, v.flag_unicast, v.flags_unknown), "C20.flags-kept", "resolved path")

    referenced = set()
    for e in w1["entries"]:
        referenced.update(range(e["idx1"], e["idx1"] + e["n1"]))
        referenced.update(range(e["idx2"], e["idx2"] + e["n2"]))
    unref = len(referenced) < len(w1["options"])
    unk = any(o["k"] == "unk" for o in w1["options"])
    uflags = bool(w1["flags"] & 0x3F)
    noncanon = b2 != consumed
    nontrivial = nontrivial or noncanon or unref or unk or uflags
    labels += ["accepted", "noncanonical" if noncanon else "canonical"]
    if unref:
        labels.append("unreferenced-options")
    if unk:
        labels.append("unknown-option")
    if uflags:
        labels.append("unknown-flags")
    return ok(nontrivial, labels)
