"""C19 - Service and eventgroup matching obeys the wildcard laws."""
from __future__ import annotations

from hypothesis import strategies as st

from ..engine import ok, require
from ..simkit import cfg, hdr, lib_option, option_desc, desc_semantic

PID = "C19"
RULE = (
    "exhaustive: all pairs of descriptions over service {a,b} x instance {i1,i2,0xFFFF} x major {m1,m2,0xFF} x minor "
    "{n1,n2,0xFFFFFFFF}, times declared eventgroup sets subset of {e1,e2} and eventgroup ids {e1,e2,e3}; random tier: "
    "full-range values and the neighbours of the wildcards; non-trivial = service ids equal (so that the other fields "
    "decide) and at least one wildcard or wildcard-neighbour present; distinct = distinct case JSON"
)
ASSUMPTIONS = [
    "reference matcher written from the statement: service ids equal; every further field equal or wildcard on the side allowed to carry it",
    "entries handed to the matchers are built field by field by the harness (not by the library's create_* helpers), the conversions are checked separately",
]
BUDGET = {"quick": {"examples": 16000, "shrink": 200}, "thorough": {"examples": 480000, "shrink": 1000}}
EXHAUSTIVE = "54 x 54 description pairs x 4 eventgroup sets x 3 eventgroup ids = 34992 cases, each checking all matching functions and laws"

WI, WM, WN = 0xFFFF, 0xFF, 0xFFFFFFFF
SV = [0x1111, 0x2222]
IN = [0x0101, 0x0202, WI]      # above CPython's small-int cache: equal values are then distinct objects (see _fresh)
MA = [1, 2, WM]
MI = [0x10001, 0x20002, WN]
EGSETS = [[], [1], [2], [1, 2]]
EGIDS = [1, 2, 3]
DESCS = [(s, i, m, n) for s in SV for i in IN for m in MA for n in MI]


def enum_size(tier):
    return len(DESCS) * len(DESCS) * len(EGSETS) * len(EGIDS)


def enum_case(tier, idx):
    idx, e = divmod(idx, len(EGIDS))
    idx, g = divmod(idx, len(EGSETS))
    a, b = divmod(idx, len(DESCS))
    return {"a": list(DESCS[a]), "b": list(DESCS[b]), "egs": EGSETS[g], "eg": EGIDS[e], "counter": 0, "opts": 0}


def _fld(wild, maxv):
    return st.one_of(st.sampled_from([wild, wild - 1, 0, 1, 2]), st.integers(0, maxv))


@st.composite
def _case(draw):
    a = [draw(st.integers(0, 0xFFFF)), draw(_fld(WI, 0xFFFF)), draw(_fld(WM, 0xFF)), draw(_fld(WN, 0xFFFFFFFF))]
    b = list(a)
    # b mostly derived from a so that matches are frequent
    for i, (w, mx) in enumerate([(None, 0xFFFF), (WI, 0xFFFF), (WM, 0xFF), (WN, 0xFFFFFFFF)]):
        how = draw(st.sampled_from(["same", "same", "wild", "near", "other"]))
        if how == "wild" and w is not None:
            b[i] = w
        elif how == "near" and w is not None:
            b[i] = w - 1
        elif how == "other":
            b[i] = draw(st.integers(0, mx))
    if draw(st.booleans()):
        a, b = b, a
    egs = draw(st.lists(st.sampled_from([0, 1, 2, 0xFFFE, 0xFFFF]), max_size=3, unique=True))
    eg = draw(st.sampled_from([0, 1, 2, 3, 0xFFFE, 0xFFFF]))
    return {"a": a, "b": b, "egs": egs, "eg": eg, "counter": draw(st.integers(0, 15)), "opts": draw(st.integers(0, 3))}


def strategy(tier):
    return _case()


OPTSETS = [
    ([], []),
    ([dict(k="ip", type=0x04, addr="10.1.2.3", proto=17, port=30501)], []),
    ([dict(k="lb", prio=1, weight=2)], [dict(k="cfg", items=[["a", "b"], ["c", None]])]),
    ([dict(k="ip", type=0x06, addr="2001:db8::1", proto=6, port=1), dict(k="unk", type=0x77, data="00ab")],
     [dict(k="ip", type=0x14, addr="224.0.0.9", proto=17, port=9)]),
]


def _eqw(x, y, wild, xw, yw):
    """equal, or wildcard on a side that may carry it"""
    return x == y or (xw and x == wild) or (yw and y == wild)


def ref_match(a, b, aw, bw):
    return (a[0] == b[0] and _eqw(a[1], b[1], WI, aw, bw) and _eqw(a[2], b[2], WM, aw, bw)
            and _eqw(a[3], b[3], WN, aw, bw))


def _svc(d, egs=(), o=0):
    o1, o2 = OPTSETS[o % len(OPTSETS)]
    return cfg.Service(d[0], d[1], d[2], d[3], options_1=tuple(lib_option(x) for x in o1),
                       options_2=tuple(lib_option(x) for x in o2), eventgroups=frozenset(egs))


def _entry(t, d, minor=None):
    return hdr.SOMEIPSDEntry(sd_type=t, service_id=d[0], instance_id=d[1], major_version=d[2], ttl=3,
                             minver_or_counter=d[3] if minor is None else minor)


def _wild_variants(d):
    out = []
    for i, w in ((1, WI), (2, WM), (3, WN)):
        v = list(d)
        v[i] = w
        out.append(v)
    return out


def _fresh(v):
    """a new int object with the same value: ids parsed from the wire are equal to configured ones, never identical"""
    return [int(str(x)) for x in v]


def run_case(case):
    a, b, egs, eg, counter = _fresh(case["a"]), _fresh(case["b"]), _fresh(case["egs"]), int(str(case["eg"])), case["counter"]
    T = hdr.SOMEIPSDEntryType
    sa, sb = _svc(a, egs, case["opts"]), _svc(b)
    offer_b, find_b = _entry(T.OfferService, b), _entry(T.FindService, b)
    sub_b = _entry(T.Subscribe, b, minor=(counter << 16) | eg)

    # reference decisions
    require(sa.matches_offer(offer_b) == ref_match(a, b, True, False), "C19.matches_offer",
            lambda: f"filter {a} offer {b}: library {sa.matches_offer(offer_b)}")
    require(sa.matches_find(find_b) == ref_match(a, b, False, True), "C19.matches_find",
            lambda: f"service {a} find {b}: library {sa.matches_find(find_b)}")
    exp_sub = a[0] == b[0] and _eqw(a[1], b[1], WI, True, False) and _eqw(a[2], b[2], WM, True, False) and eg in egs
    require(sa.matches_subscribe(sub_b) == exp_sub, "C19.matches_subscribe",
            lambda: f"service {a} eventgroups {egs} subscribe {b[:3]} eg={eg}: library {sa.matches_subscribe(sub_b)}")
    require(sa.matches_service(sb) == ref_match(a, b, True, True), "C19.matches_service",
            lambda: f"{a} vs {b}: library {sa.matches_service(sb)}")

    # laws
    require(sa.matches_service(sb) == sb.matches_service(sa), "C19.symmetry", lambda: f"{a} vs {b}")
    for v in _wild_variants(a):
        sv = _svc(v, egs)
        if sa.matches_offer(offer_b):
            require(sv.matches_offer(offer_b), "C19.monotone-offer", lambda: f"filter {a}->{v} lost offer {b}")
        if sa.matches_service(sb):
            require(sv.matches_service(sb) and sb.matches_service(sv), "C19.monotone-service", lambda: f"{a}->{v} lost {b}")
        if sa.matches_subscribe(sub_b):
            require(sv.matches_subscribe(sub_b), "C19.monotone-subscribe", lambda: f"service {a}->{v} lost subscribe {b}")
    for v in _wild_variants(b):
        if sa.matches_find(find_b):
            require(sa.matches_find(_entry(T.FindService, v)), "C19.monotone-find", lambda: f"find {b}->{v} lost service {a}")

    # duality: a concrete service answers a filter's find entry iff the filter accepts its offer entry
    concrete_b = b[1] != WI and b[2] != WM and b[3] != WN
    if concrete_b:
        fe = sa.create_find_entry()
        oe = sb.create_offer_entry()
        require(fe.sd_type == T.FindService and oe.sd_type == T.OfferService, "C19.entry-types", "")
        require(sb.matches_find(fe) == sa.matches_offer(oe), "C19.find-offer-duality",
                lambda: f"filter {a} concrete {b}: matches_find={sb.matches_find(fe)} matches_offer={sa.matches_offer(oe)}")
        require((fe.service_id, fe.instance_id, fe.major_version, fe.service_minor_version) == tuple(a),
                "C19.create_find_entry", lambda: f"{a} -> {fe}")

    # conversion round trip (ids, versions, both option runs)
    oe = sa.create_offer_entry(ttl=7)
    require((oe.service_id, oe.instance_id, oe.major_version, oe.service_minor_version, oe.ttl) == tuple(a) + (7,),
            "C19.create_offer_entry", lambda: f"{a} -> {oe}")
    back = cfg.Service.from_offer_entry(oe)
    o1, o2 = OPTSETS[case["opts"] % len(OPTSETS)]
    require((back.service_id, back.instance_id, back.major_version, back.minor_version) == tuple(a)
            and [option_desc(o) for o in back.options_1] == [desc_semantic(d) for d in o1]
            and [option_desc(o) for o in back.options_2] == [desc_semantic(d) for d in o2],
            "C19.offer-roundtrip", lambda: f"{a} opts={case['opts']} -> {back}")

    # the same options split differently over the two runs (the earlier conversion results stay referenced, as they do in a
    # running stack's tables): every conversion keeps exactly the runs it was given
    allopts = list(o1) + list(o2)
    keep = [back]
    for k in range(len(allopts) + 1):
        ent = hdr.SOMEIPSDEntry(sd_type=T.OfferService, service_id=a[0], instance_id=a[1], major_version=a[2], ttl=7, minver_or_counter=a[3],
                                options_1=tuple(lib_option(x) for x in allopts[:k]), options_2=tuple(lib_option(x) for x in allopts[k:]))
        sv = cfg.Service.from_offer_entry(ent)
        keep.append(sv)
        require([option_desc(o) for o in sv.options_1] == [desc_semantic(d) for d in allopts[:k]]
                and [option_desc(o) for o in sv.options_2] == [desc_semantic(d) for d in allopts[k:]], "C19.offer-roundtrip",
                lambda: f"{a}: offer entry with runs {allopts[:k]} / {allopts[k:]} converted to {sv}")
        again = sv.create_offer_entry(ttl=7)
        require(tuple(again.options_1) == tuple(ent.options_1) and tuple(again.options_2) == tuple(ent.options_2), "C19.offer-roundtrip",
                lambda: f"{a}: entry -> description -> entry changed the option runs: {ent} -> {again}")

    # specialising an eventgroup filter (a's ids) to an offered service b
    evg = cfg.Eventgroup(service_id=a[0], instance_id=a[1], major_version=a[2], eventgroup_id=eg,
                         sockname=("10.0.0.9", 3000), protocol=hdr.L4Protocols.UDP)
    spec = evg.for_service(sb)
    accepts = ref_match([a[0], a[1], a[2], WN], b, True, False)
    require((spec is not None) == accepts, "C19.for_service-accept",
            lambda: f"eventgroup filter {a[:3]} service {b}: for_service={spec} expected accept={accepts}")
    if spec is not None:
        require((spec.service_id, spec.instance_id, spec.major_version, spec.eventgroup_id, spec.sockname, spec.protocol)
                == (a[0], b[1], b[2], eg, ("10.0.0.9", 3000), hdr.L4Protocols.UDP), "C19.for_service-fields",
                lambda: f"{a[:3]} specialised to {b}: {spec}")
    se = evg.create_subscribe_entry(ttl=5, counter=counter)
    require((se.sd_type, se.service_id, se.instance_id, se.major_version, se.ttl, se.eventgroup_id, se.eventgroup_counter)
            == (T.Subscribe, a[0], a[1], a[2], 5, eg, counter), "C19.create_subscribe_entry", lambda: f"{se}")
    asv = evg.as_service()
    require((asv.service_id, asv.instance_id, asv.major_version, asv.minor_version) == (a[0], a[1], a[2], WN),
            "C19.as_service", lambda: f"{asv}")

    special = {WI, WI - 1, WM, WM - 1, WN, WN - 1}
    nontrivial = a[0] == b[0] and any(x in special for x in a[1:] + b[1:])
    labels = ["svc-equal" if a[0] == b[0] else "svc-differ",
              "match" if ref_match(a, b, True, True) else "nomatch", "concrete-b" if concrete_b else "wild-b"]
    return ok(nontrivial, labels)
