"""C18 - Stream and datagram framing agree under arbitrary segmentation."""
from __future__ import annotations

import asyncio

from hypothesis import strategies as st

from .. import wire
from ..engine import ok, require
from ..simkit import Sim, hdr
from .c01 import payload

PID = "C18"
RULE = (
    "cases = byte streams of 0..8 encoded messages (payload lengths boundary-biased in 0..4096; one in six a magic-cookie or SD-notification header, exact or with one field redrawn), optionally one corrupted "
    "header field (version, type, return code, length incl. < 8 and overshoot), optionally cut short at any position, fed "
    "to an asyncio.StreamReader in chunks while the reader task runs concurrently on the virtual loop (an unrelated datagram is decoded between the chunks); chunkings: every "
    "single and double cut position for four short streams (exhaustive), random cut sets and all-1-byte chunks otherwise; "
    "non-trivial = a cut strictly inside a message, or a truncated stream, or a corrupted header; distinct = distinct case JSON"
)
ASSUMPTIONS = [
    "reference = repeated SOMEIPHeader.parse on the concatenated bytes (the statement names datagram decoding as the reference; C01 ties it to the independent codec)",
    "at a clean end of stream the reader may raise an incomplete-read error (asyncio's or the library's) or return None, never a message",
    "which incomplete-read exception type is raised inside a message is not fixed by the statement: asyncio.IncompleteReadError and the library's IncompleteReadError are both accepted",
]
BUDGET = {"quick": {"examples": 6400, "shrink": 200}, "thorough": {"examples": 200000, "shrink": 1000}}
EXHAUSTIVE = "all single and double cut positions of 4 short streams (2-3 messages <= 64 bytes; plain, truncated, corrupted type, length<8); three two-message streams (payloads of 0/15/16/17/32 bytes) cut short at every position, both reader APIs (fixed cases)"

PL = [0, 1, 2, 7, 8, 9, 15, 16, 17, 255, 256, 4095, 4096]   # 16 = the header's own length
DECOY = wire.encode_someip(0x0D0D, 0x0E0E, 0x0F0F, 0x0A0A, 0x0B, 0x80, 0x01, b"decoy-payload")

SHORT = [
    {"msgs": [[1, 2, 3, 4, 5, 0, 0, 0], [0xFFFF, 0x8100, 0, 1, 1, 2, 0, 5], [7, 7, 7, 7, 7, 0x81, 9, 1]], "corrupt": None, "trunc": None},
    {"msgs": [[1, 2, 3, 4, 5, 0, 0, 3], [9, 9, 9, 9, 9, 0x80, 0, 12]], "corrupt": None, "trunc": 40},
    {"msgs": [[1, 2, 3, 4, 5, 0, 0, 2], [9, 9, 9, 9, 9, 0x80, 0, 4]], "corrupt": {"idx": 1, "field": "mtype", "value": 0x33}, "trunc": None},
    {"msgs": [[1, 2, 3, 4, 5, 0, 0, 2], [9, 9, 9, 9, 9, 0x80, 0, 4], [1, 1, 1, 1, 1, 1, 1, 0]], "corrupt": {"idx": 1, "field": "length", "value": 7}, "trunc": None},
]
# streams cut short at every position (fixed cases): payloads as long as a header, shorter and longer
TRUNC_SWEEP = [[[1, 2, 3, 4, 5, 0, 0, 16], [6, 7, 8, 9, 1, 2, 0, 16]], [[1, 2, 3, 4, 5, 0, 0, 15], [6, 7, 8, 9, 1, 2, 0, 17]], [[1, 2, 3, 4, 5, 0, 0, 0], [6, 7, 8, 9, 1, 2, 0, 32]]]


def fixed_cases(tier):
    out = []
    for msgs in TRUNC_SWEEP:
        total = len(_bytes({"msgs": msgs, "corrupt": None, "trunc": None}))
        for cut in range(total + 1):
            for api in (0, 1):
                out.append({"msgs": msgs, "corrupt": None, "trunc": cut, "cuts": [], "api": api})
                out.append({"msgs": msgs, "corrupt": None, "trunc": cut, "cuts": [16] if cut > 16 else [], "api": api})
    return out


def _bytes(case):
    encs = []
    for m in case["msgs"]:
        svc, meth, cli, ses, iv, mt, rc, plen = m
        mt = mt if mt in wire.MESSAGE_TYPES else 0
        rc = rc if rc in wire.RETURN_CODES else 0
        encs.append(wire.encode_someip(svc & 0xFFFF, meth & 0xFFFF, cli & 0xFFFF, ses & 0xFFFF, iv & 0xFF, mt, rc,
                                       payload(min(plen, 4096), plen % 7)))
    c = case.get("corrupt")
    if c and encs:
        i = min(c["idx"], len(encs) - 1)
        b = bytearray(encs[i])
        if c["field"] == "length":
            b[4:8] = (c["value"] & 0xFFFFFFFF).to_bytes(4, "big")
        else:
            b[{"proto": 12, "mtype": 14, "rcode": 15}.get(c["field"], 12)] = c["value"] & 0xFF
        encs[i] = bytes(b)
    data = b"".join(encs)
    if case.get("trunc") is not None:
        data = data[: max(0, min(len(data), case["trunc"]))]
    return data


def _short_len(i):
    return len(_bytes(SHORT[i]))


def _pairs(n):
    # cut positions 1..n-1; single cuts (i,i) and double cuts i<j
    return [(i, j) for i in range(1, n) for j in range(i, n)]


_SHORT_PAIRS = None


def _short_pairs():
    global _SHORT_PAIRS
    if _SHORT_PAIRS is None:
        _SHORT_PAIRS = [(s, p) for s in range(len(SHORT)) for p in _pairs(_short_len(s))]
    return _SHORT_PAIRS


def enum_size(tier):
    return len(_short_pairs()) * 2


def enum_case(tier, idx):
    idx, api = divmod(idx, 2)
    s, (i, j) = _short_pairs()[idx]
    c = dict(SHORT[s])
    c["cuts"] = sorted(set([i, j]))
    c["api"] = api
    return c


@st.composite
def _case(draw):
    n = draw(st.sampled_from([0, 1, 1, 2, 2, 3, 5, 8]))
    msgs = []
    for _ in range(n):
        plen = draw(st.one_of(st.sampled_from(PL), st.integers(0, 300)))
        m = [draw(st.integers(0, 0xFFFF)), draw(st.integers(0, 0xFFFF)), draw(st.integers(0, 0xFFFF)),
             draw(st.integers(0, 0xFFFF)), draw(st.integers(0, 255)), draw(st.sampled_from(wire.MESSAGE_TYPES)),
             draw(st.sampled_from(wire.RETURN_CODES)), plen]
        if draw(st.integers(0, 5)) == 0:
            # a header the specification gives a meaning of its own (TCP magic cookies, SD notification), exact or with one field redrawn
            keep = draw(st.sampled_from([None, None, 0, 1, 2, 3, 4, 5, 6]))
            w = list(draw(st.sampled_from(wire.WELL_KNOWN_HEADERS))) + [draw(st.sampled_from([0, 0, 12, plen]))]
            if keep is not None:
                w[keep] = m[keep]
            m = w
        msgs.append(m)
    corrupt = None
    if msgs and draw(st.integers(0, 2)) == 0:
        field = draw(st.sampled_from(["length", "length", "proto", "mtype", "rcode"]))
        idx = draw(st.integers(0, n - 1))
        val = draw(st.one_of(st.integers(0, 9), st.integers(0, 5000), st.sampled_from([0xFFFFFFFF, 0x10000]))) if field == "length" else draw(st.integers(0, 255))
        corrupt = {"idx": idx, "field": field, "value": val}
    case = {"msgs": msgs, "corrupt": corrupt, "trunc": None}
    total = len(_bytes(case))
    if total and draw(st.integers(0, 2)) == 0:
        case["trunc"] = draw(st.integers(0, total))
        total = case["trunc"]
    mode = draw(st.sampled_from(["cuts", "cuts", "bytes1", "whole"]))
    if mode == "bytes1" and total <= 600:
        case["cuts"] = list(range(1, total))
    elif mode == "whole" or total < 2:
        case["cuts"] = []
    else:
        case["cuts"] = sorted(set(draw(st.lists(st.integers(1, total - 1), max_size=12))))
    case["api"] = draw(st.integers(0, 1))
    return case


def strategy(tier):
    return _case()


def _reference(data):
    """list of ('msg', SOMEIPHeader) ... terminated by ('eof',) | ('incomplete',) | ('invalid',)"""
    out = []
    buf = data
    while True:
        if not buf:
            out.append(("eof",))
            return out
        try:
            m, buf = hdr.SOMEIPHeader.parse(buf)
        except hdr.IncompleteReadError:
            out.append(("incomplete",))
            return out
        except hdr.ParseError:
            out.append(("invalid",))
            return out
        out.append(("msg", m))


def run_case(case):
    data = _bytes(case)
    cuts = [c for c in sorted(set(case.get("cuts", []))) if 0 < c < len(data)]
    ref = _reference(data)
    got = []
    with Sim() as sim:
        reader = asyncio.StreamReader()
        api = case.get("api", 0)
        wrapped = hdr.SOMEIPReader(reader)

        async def consume():
            while True:
                try:
                    m = await (wrapped.read() if api else hdr.SOMEIPHeader.read(reader))
                except hdr.IncompleteReadError:
                    got.append(("incomplete",))
                    return
                except hdr.ParseError:
                    got.append(("invalid",))
                    return
                except asyncio.IncompleteReadError as e:
                    got.append(("incomplete", len(e.partial)))
                    return
                if m is None:
                    got.append(("none",))
                    return
                got.append(("msg", m))
                if len(got) > len(ref) + 2:
                    return

        task = asyncio.ensure_future(consume())
        pos = 0
        sim.settle()
        for c in cuts + [len(data)]:
            if c > pos:
                reader.feed_data(data[pos:c])
                pos = c
                sim.settle()
                # while the reader waits for the next chunk the process decodes an unrelated datagram (another socket of
                # the same application): decoding is re-entrant, it must not disturb the suspended read
                hdr.SOMEIPHeader.parse(DECOY)
        reader.feed_eof()
        sim.settle()
        require(task.done(), "C18.reader-hangs", lambda: f"reader task still pending after EOF; got {len(got)} results")
        if task.done() and not task.cancelled() and task.exception() is not None:
            exc = task.exception()
            require(False, "C18.other-exception", f"{type(exc).__name__}: {exc} after {len(got)} results; reference ends with {ref[-1][0]}")

    # compare
    nmsg = sum(1 for r in ref if r[0] == "msg")
    gmsgs = [g[1] for g in got if g[0] == "msg"]
    for i, (g, r) in enumerate(zip(gmsgs, [r[1] for r in ref if r[0] == "msg"])):
        require(g == r, "C18.message-differs", lambda: f"message #{i}: stream {str(g)[:200]} datagram {str(r)[:200]}")
    end = ref[-1][0]
    gend = got[-1][0] if got else "nothing"
    require(len(gmsgs) <= nmsg, "C18.extra-message",
            lambda: f"stream reader returned {len(gmsgs)} messages, datagram decoding {nmsg} then {end}; last={str(gmsgs[-1])[:200]}")
    require(len(gmsgs) == nmsg, "C18.position", lambda: f"stream reader stopped after {len(gmsgs)} messages with {gend}, datagram decoding after {nmsg} with {end}")
    if end == "invalid":
        require(gend == "invalid", "C18.reject-differs", lambda: f"datagram decoding rejects message #{nmsg} with ParseError, stream reader: {got[-1]}")
    elif end == "incomplete":
        require(gend == "incomplete", "C18.truncated", lambda: f"stream ends inside message #{nmsg}; stream reader: {got[-1]}")
    else:
        require(gend in ("incomplete", "none"), "C18.eof", lambda: f"clean end of stream; stream reader: {got[-1]}")
        if gend == "incomplete" and len(got[-1]) > 1:
            require(got[-1][1] == 0, "C18.eof", lambda: f"clean end of stream but partial read of {got[-1][1]} bytes")

    # classification
    bounds = set()
    p = 0
    for r in ref:
        if r[0] == "msg":
            p += 16 + len(r[1].payload)
            bounds.add(p)
    inside = any(c not in bounds for c in cuts)
    nontrivial = inside or case.get("trunc") is not None or bool(case.get("corrupt"))
    return ok(nontrivial, [f"end={end}", f"cuts={'0' if not cuts else ('1-2' if len(cuts) <= 2 else 'many')}", f"api={api}",
                           "inside-cut" if inside else "boundary-cuts"])
