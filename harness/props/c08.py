"""C08 - Outgoing session ids count 1..0xFFFF per destination; reboot flag clears on wrap."""
from __future__ import annotations

import dataclasses
import ipaddress

from hypothesis import strategies as st

from ..engine import ok, require
from .. import wire
from ..simkit import ADDRS, MCAST, FakeTransport, Sim, hdr, make_sd, peer_addr, sd, service

PID = "C08"
RULE = (
    "SD: histories of blocks (destination, count, empty-send mode) through ServiceDiscoveryProtocol.send_sd to the "
    "multicast group (remote=None) and up to 4 unicast peers (two of them differing in the IPv6 scope id only), round-robin sweeps over 10..300 further peers, messages of 1..300 entries, interleaved with SD messages received from those peers (also with reboot evidence), counts from {1,2,3,100,65534,65535,65536}+random so that "
    "destinations wrap at different moments; notification path: SimpleService/SimpleEventgroup with up to 3 subscribed "
    "endpoints and scripts of subscribe/unsubscribe/notify rounds long enough to wrap; every datagram is decoded "
    "independently (session id bytes 10-11, flags byte 16); non-trivial = some destination crosses its wrap while "
    "another destination has a different count, or an empty send lies between two sends; distinct = distinct case JSON"
)
ASSUMPTIONS = [
    "reference: the n-th message (1-based) to a destination carries id ((n-1) mod 65535)+1 and, for SD, the reboot flag iff n <= 65535",
    "thread interleavings of assign_outgoing are not explored (call histories only)",
]
BUDGET = {"quick": {"examples": 320, "shrink": 40}, "thorough": {"examples": 4800, "shrink": 200}}
EXHAUSTIVE = "one destination walked through 2 x 65535 + 10 consecutive SD sends (fixed case), i.e. the complete cycle of (flag, id) states twice"

CROWD0 = 100
DESTS = [None] + ADDRS + [("2001:db8::3", 30490, 0, 7)]   # the last one differs from ADDRS[1] in its scope id only


def fixed_cases(tier):
    out = [
        {"kind": "sd", "blocks": [[0, 2 * 65535 + 10, 0]]},
        {"kind": "sd", "blocks": [[1, 65534, 0], [2, 3, 1], [1, 1, 1], [0, 65535, 0], [2, 2, 0], [1, 2, 2], [0, 2, 2], [2, 65531, 0], [2, 3, 2]]},
        {"kind": "sd", "blocks": [[0, 65534, 1], [0, 3, 2], [2, 65533, 0], [2, 1, 1], [2, 4, 1]]},
        {"kind": "sd", "blocks": [[1, 65540, 2]]},
        {"kind": "sd", "blocks": [[2, 3, 0], [4, 2, 0], [2, 2, 1], [4, 65534, 0], [2, 1, 0], [4, 3, 0]]},   # two IPv6 peers differing in scope id only
        {"kind": "sd", "blocks": [[1, 3, 0], ["recv", 0, 0], ["recv", 0, 1], [1, 3, 0], [2, 2, 0], ["recv", 1, 0], ["recv", 1, 1], ["recv", 1, 1], [2, 2, 0], [1, 65530, 0], ["recv", 0, 1], [1, 3, 0]]},
        {"kind": "notify", "nev": 2, "eps": 3, "script": [["sub!", 0], ["unsub!", 0], ["sub", 0], ["rounds", 3], ["sub!", 1], ["unsub", 1], ["sub", 1], ["rounds!", 2], ["unsub", 0], ["sub", 0], ["rounds", 2]]},
        {"kind": "notify", "nev": 2, "eps": 3, "script": [["sub", 1], ["sub!", 0], ["hop", 1], ["unsub!", 0], ["hop", 1], ["sub!", 0], ["rounds!", 2], ["hop", 2], ["unsub!", 1], ["rounds", 2], ["sub", 1], ["rounds", 2]]},
        # the last subscriber leaves and comes back: its counter goes on
        {"kind": "notify", "nev": 2, "eps": 3, "script": [["sub", 0], ["rounds", 3], ["unsub", 0], ["sub", 0], ["rounds", 2], ["sub", 1], ["rounds", 2], ["unsub", 0], ["unsub", 1], ["sub", 1], ["sub", 0], ["rounds", 2]]},
        {"kind": "notify", "nev": 4, "eps": 3, "script": [["sub", 0], ["rounds", 100], ["sub", 1], ["rounds", 16300], ["unsub", 0], ["sub", 2], ["rounds", 200], ["sub", 0], ["rounds", 3]]},
    ]
    # a datagram of several notifications straddles the wrap at every alignment (k single notifications shift it)
    for nev in (3, 4):
        for k in range(nev):
            out.append({"kind": "notify", "nev": nev, "eps": 1, "script": [["sub", 0]] + [["subset", 1]] * k + [["rounds", 65535 // nev + 3]]})
    # eventgroups of many events: the initial notification of a new subscriber and an explicit round issued in the same iteration
    out.append({"kind": "notify", "nev": 20, "eps": 2, "script": [["sub!", 0], ["rounds!", 2], ["sub!", 1], ["rounds", 2], ["unsub!", 0], ["sub!", 0], ["rounds!", 1], ["hop", 1], ["rounds", 2]]})
    if tier == "thorough":
        out.append({"kind": "notify", "nev": 1, "eps": 2, "script": [["sub", 0], ["rounds", 65533], ["sub", 1], ["rounds", 5], ["unsub", 1], ["sub", 1], ["rounds", 65540]]})
        out.append({"kind": "sd", "blocks": [[d, c, 0] for c in (30000, 30000, 5534, 3) for d in (0, 1, 2, 3)] + [[1, 65536, 0], [3, 2, 1]]})
    return out


@st.composite
def _case(draw):
    if draw(st.integers(0, 3)) == 0:
        nev = draw(st.sampled_from([1, 2, 3, 4, 4, 17, 20]))
        script = []
        for _ in range(draw(st.integers(1, 10))):
            op = draw(st.sampled_from(["sub", "sub", "unsub", "rounds", "rounds", "subset", "sub!", "unsub!", "rounds!", "hop", "hop"]))
            if op == "hop":
                script.append([op, draw(st.integers(1, 3))])
                continue
            if op in ("sub", "unsub", "sub!", "unsub!"):
                script.append([op, draw(st.integers(0, 2))])
            elif op in ("rounds", "rounds!"):
                script.append([op, draw(st.sampled_from([1, 2, 3, 50]))])
            else:
                script.append([op, draw(st.integers(0, (1 << nev) - 1))])
        return {"kind": "notify", "nev": nev, "eps": 3, "script": script}
    blocks = []
    budget = 140000
    for _ in range(draw(st.integers(1, 12))):
        if draw(st.integers(0, 4)) == 0:
            blocks.append(["recv", draw(st.integers(0, 2)), draw(st.sampled_from([0, 1, 1]))])
            continue
        if draw(st.integers(0, 7)) == 0:
            # round-robin over many further unicast peers: every peer gets one message per round
            nd, rounds = draw(st.sampled_from([10, 40, 129, 150, 300])), draw(st.integers(1, 3))
            if nd * rounds <= budget:
                budget -= nd * rounds
                blocks.append(["sweep", nd, rounds])
            continue
        # wrap-crossing blocks are expensive (65535 real sends): one block in eight, the rest are short
        c = draw(st.sampled_from([65534, 65535, 65536])) if draw(st.integers(0, 7)) == 0 else draw(st.one_of(st.sampled_from([1, 2, 3, 100]), st.integers(1, 300)))
        c = min(c, budget)
        if c <= 0:
            break
        budget -= c
        mode = draw(st.sampled_from([0, 0, 1, 2])) if c <= 300 else draw(st.sampled_from([0, 1]))
        blk = [draw(st.integers(0, 4)), c, mode]
        if c <= 300 and draw(st.integers(0, 3)) == 0:
            blk.append(draw(st.sampled_from([2, 16, 86, 87, 120, 300])))   # entries per message (default 1)
        blocks.append(blk)
    return {"kind": "sd", "blocks": blocks}


def strategy(tier):
    return _case()


def _expect_id(n):
    return ((n - 1) % 65535) + 1


ENTRY = None


def _run_sd(case):
    T = hdr.SOMEIPSDEntryType
    entry = hdr.SOMEIPSDEntry(sd_type=T.FindService, service_id=1, instance_id=0xFFFF, major_version=0xFF, ttl=3,
                              minver_or_counter=0xFFFFFFFF)
    counts = {}
    crossed = set()
    pending_empty = set()
    flags = {"empties": False, "nontrivial": False}
    with Sim() as sim:
        prot = make_sd(sim)
        tr = prot.transport

        def empty(d, wd):
            before = len(tr.sent)
            prot.send_sd([], remote=d)
            require(len(tr.sent) == before, "C08.empty-send-transmits", "an empty entry list was transmitted")
            if counts.get(wd, 0) > 0:
                pending_empty.add(wd)

        def send(d, wd, nent=1):
            before = len(tr.sent)
            prot.send_sd([entry] if nent == 1 else [dataclasses.replace(entry, service_id=1 + k) for k in range(nent)], remote=d)
            if nent == 1:
                require(len(tr.sent) == before + 1, "C08.send-count", lambda: f"{len(tr.sent) - before} datagrams for one send_sd with one entry")
            else:
                require(len(tr.sent) >= before + 1, "C08.send-count", lambda: f"nothing transmitted for a send_sd with {nent} entries")
            # whatever number of messages the entries travel in, each of them is the destination's next message
            for _, dest, data in tr.sent[before:]:
                check_sent(wd, dest, data)
            if len(tr.sent) > 200:
                del tr.sent[:]

        def check_sent(wd, dest, data):
            n = counts.get(wd, 0) + 1
            counts[wd] = n
            sid = int.from_bytes(data[10:12], "big")
            flag = bool(data[16] & 0x80)
            require(dest == wd, "C08.destination", lambda: f"sent to {dest}, requested {wd}")
            require(sid == _expect_id(n), "C08.session-id",
                    lambda: f"message #{n} to {wd} carries session id {sid}, expected {_expect_id(n)}; counts={counts}")
            require(flag == (n <= 65535), "C08.reboot-flag",
                    lambda: f"message #{n} to {wd} has reboot flag {flag}, expected {n <= 65535}")
            if wd in pending_empty:
                flags["empties"] = True
            if n == 65536:
                crossed.add(wd)
                if any(v != n for k, v in counts.items() if k != wd):
                    flags["nontrivial"] = True

        rx = {}
        for blk in case["blocks"]:
            if blk[0] == "recv":
                # traffic received from a peer - also with reboot evidence - must not disturb the outgoing counters
                peer = ADDRS[blk[1] % len(ADDRS)]
                flag, n_ = rx.get(peer, (True, 0))
                flag, n_ = (True, 1) if blk[2] else (flag, n_ + 1)
                rx[peer] = (flag, n_)
                b_ = wire.SDBuilder().add(wire.FIND, 0x7777, 0xFFFF, 0xFF, 3, minor=0xFFFFFFFF)
                prot.datagram_received(b_.datagram(n_, reboot=flag), peer, False)
                sim.settle()
                continue
            if blk[0] == "sweep":
                for _ in range(max(0, min(blk[2], 5))):
                    for k in range(max(0, min(blk[1], 1000))):
                        d = peer_addr(CROWD0 + k)
                        send(d, d)
                if blk[1] > 1 and blk[2] > 1:
                    flags["nontrivial"] = True
                continue
            d = DESTS[blk[0] % len(DESTS)]
            wd = MCAST if d is None else d
            count, mode = max(0, min(blk[1], 200000)), blk[2]
            nent = max(1, min(int(blk[3]), 1000)) if len(blk) > 3 else 1
            for _ in range(count):
                if mode == 2:
                    empty(d, wd)
                send(d, wd, nent)
            if mode >= 1:
                empty(d, wd)
    return ok(flags["nontrivial"] or flags["empties"],
              ["kind=sd", f"dests={len(counts)}", f"crossed={len(crossed)}", f"empty-between={int(flags['empties'])}"])


class _Svc(service.SimpleService):
    service_id = 0xB0A7
    version_major = 1
    version_minor = 0


EPS = [("10.0.0.5", 3000), ("2001:db8::5", 3001), ("10.0.0.6", 3000)]


def _ep(i):
    a, p = EPS[i % len(EPS)]
    ip = ipaddress.ip_address(a)
    cls = hdr.IPv4EndpointOption if ip.version == 4 else hdr.IPv6EndpointOption
    return cls(address=ip, l4proto=hdr.L4Protocols.UDP, port=p)


def _ep_addr(i):
    a, p = EPS[i % len(EPS)]
    return (a, p) if ":" not in a else (a, p, 0, 0)


def _run_notify(case):
    nev = max(1, min(24, case.get("nev", 1)))
    counts = {}
    crossed = set()
    nontrivial = False
    with Sim() as sim:
        svc = _Svc(1)
        svc.transport = FakeTransport(sim, ("10.0.0.1", 30500))
        eg = service.SimpleEventgroup(svc, id=1)
        svc.register_eventgroup(eg)
        for e in range(nev):
            eg.values[e + 1] = bytes([e])
        tr = svc.transport
        subscribed = set()
        seen = 0

        def drain():
            nonlocal seen, nontrivial
            sim.settle()
            for _, dest, data in tr.sent[seen:]:
                pos = 0
                while pos < len(data):
                    ln = int.from_bytes(data[pos + 4 : pos + 8], "big")
                    sid = int.from_bytes(data[pos + 10 : pos + 12], "big")
                    n = counts.get(dest, 0) + 1
                    counts[dest] = n
                    require(sid == _expect_id(n), "C08.notify-session-id",
                            lambda: f"notification #{n} to {dest} carries session id {sid}, expected {_expect_id(n)}; counts={counts}")
                    if n == 65536:
                        crossed.add(dest)
                        if len(counts) > 1 and any(v != n for k, v in counts.items() if k != dest):
                            nontrivial = True
                    pos += 8 + ln
            seen = len(tr.sent)
            if seen > 500:
                del tr.sent[:]
                seen = 0

        for op, arg in case["script"]:
            lazy = op.endswith("!")  # no idle point after this step: the next one happens in the same iteration
            op = op.rstrip("!")
            _drain = drain
            if lazy:
                def drain():  # noqa: E306
                    pass
            if op == "hop":
                # a few loop iterations without reaching an idle point: the next step lands while notification tasks
                # are suspended in their address look-up
                for _ in range(max(1, min(3, arg))):
                    if sim.busy():
                        sim.step()
                drain = _drain
                continue
            if op == "sub":
                i = arg % len(EPS)
                if i in subscribed:
                    continue
                subscribed.add(i)
                sub = sd.EventgroupSubscription(service_id=svc.service_id, instance_id=1, major_version=1, id=1, counter=0,
                                                ttl=3, endpoints=frozenset([_ep(i)]))
                svc.client_subscribed(sub, ("10.0.0.99", 30490))
                drain()
            elif op == "unsub":
                i = arg % len(EPS)
                if i not in subscribed:
                    continue
                subscribed.discard(i)
                sub = sd.EventgroupSubscription(service_id=svc.service_id, instance_id=1, major_version=1, id=1, counter=0,
                                                ttl=3, endpoints=frozenset([_ep(i)]))
                svc.client_unsubscribed(sub, ("10.0.0.99", 30490))
                drain()
            elif op == "rounds":
                for _ in range(max(0, min(arg, 70000))):
                    eg.notify_once(list(eg.values.keys()))
                    drain()
            elif op == "subset":
                evs = [e + 1 for e in range(nev) if arg & (1 << e)]
                eg.notify_once(evs)
                drain()
            drain = _drain
        drain()
        require(not sim.loop.errors and not sim.loop.task_errors(), "C08.loop-error",
                lambda: str(sim.loop.errors[:2]) + str(sim.loop.task_errors()[:2]))
    multi = len(counts) > 1 and len(set(counts.values())) > 1
    return ok(nontrivial or multi, ["kind=notify", f"dests={len(counts)}", f"crossed={len(crossed)}"])


def run_case(case):
    if case.get("kind") == "notify":
        return _run_notify(case)
    return _run_sd(case)
