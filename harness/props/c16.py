"""C16 - Method calls get exactly one correctly correlated reply."""
from __future__ import annotations

from hypothesis import strategies as st

from .. import wire
from ..engine import ok, require
from ..simkit import ADDRS, FakeTransport, Sim, hdr, service
from .c01 import payload

PID = "C16"
# senders 3 and 4: an IPv4 client seen through a dual-stack socket (IPv4-mapped address) and a link-local peer with a scope id
SENDERS = ADDRS + [("::ffff:10.0.0.2", 40000, 0, 0), ("fe80::1", 30490, 0, 3)]
RULE = (
    "cases = a SimpleService with 1..3 registered methods whose handlers return bytes (any length), return None or raise "
    "MalformedMessageError, receiving 1..4 messages over all combinations of service id / interface version / method id "
    "(equal to the service's, off by one, random), every message type, every return code, random client/session ids, "
    "payload 0..300 bytes, unicast or multicast, from 5 senders (IPv4, IPv6, an IPv4-mapped IPv6 address, a link-local address with scope id), delivered through message_received or as bytes (several per datagram) "
    "through datagram_received; replies decoded by the independent codec. non-trivial = a message failing >= 2 checks, "
    "or REQUEST_NO_RETURN, or a handler that rejects or returns None; distinct = distinct case JSON"
)
ASSUMPTIONS = [
    "reference decision chain from the statement: multicast -> nothing; service -> interface version -> method -> message type -> return code -> handler; first failing check decides",
]
BUDGET = {"quick": {"examples": 12000, "shrink": 300}, "thorough": {"examples": 640000, "shrink": 2000}}
EXHAUSTIVE = "all 10 message types x 11 return codes x {service ok/wrong} x {version ok/wrong} x {method known/unknown} x 3 handler kinds x {unicast, multicast} (fixed cases)"
SID, VER = 0x7100, 3


@st.composite
def _msg(draw):
    return dict(
        svc=draw(st.sampled_from([SID, SID, SID, SID + 1, 0, 0xFFFF])), iv=draw(st.sampled_from([VER, VER, VER, VER + 1, 0, 0xFF])),
        meth=draw(st.sampled_from([1, 1, 2, 3, 4, 0x8001, 0xFFFF])), mt=draw(st.sampled_from(wire.MESSAGE_TYPES + (0, 0, 1))),
        rc=draw(st.sampled_from(wire.RETURN_CODES + (0, 0, 0, 0))), cli=draw(st.integers(0, 0xFFFF)), ses=draw(st.integers(0, 0xFFFF)),
        plen=draw(st.sampled_from([0, 1, 8, 300])), mc=draw(st.sampled_from([False, False, False, True])), src=draw(st.sampled_from([0, 1, 2, 0, 1, 2, 3, 4])))


@st.composite
def _case(draw):
    nm = draw(st.integers(1, 3))
    methods = [[i + 1, draw(st.sampled_from(["bytes", "bytes", "none", "reject", "empty"])), draw(st.sampled_from([0, 1, 40, 1400]))] for i in range(nm)]
    return {"methods": methods, "msgs": draw(st.lists(_msg(), min_size=1, max_size=4)), "via": draw(st.sampled_from(["obj", "bytes", "bytes"]))}


def strategy(tier):
    return _case()


def fixed_cases(tier):
    out = []
    for beh in ("bytes", "none", "reject"):
        for mc in (False, True):
            msgs = []
            for mt in wire.MESSAGE_TYPES:
                for rc in wire.RETURN_CODES:
                    for svc in (SID, SID + 1):
                        for iv in (VER, VER - 1):
                            for meth in (1, 9):
                                msgs.append(dict(svc=svc, iv=iv, meth=meth, mt=mt, rc=rc, cli=0xABCD, ses=0x1234, plen=3, mc=mc, src=0))
            for i in range(0, len(msgs), 40):
                out.append({"methods": [[1, beh, 5]], "msgs": msgs[i:i + 40], "via": "obj" if (i // 40) % 2 else "bytes1"})
    return out


class _Svc(service.SimpleService):
    service_id = SID
    version_major = VER
    version_minor = 0


def expected(m, methods):
    """-> None or (mtype, rcode, payload)"""
    if m["mc"]:
        return None
    if m["svc"] != SID:
        return (0x81, 2, b"")
    if m["iv"] != VER:
        return (0x81, 8, b"")
    beh = methods.get(m["meth"])
    if beh is None:
        return (0x81, 3, b"")
    if m["mt"] not in (0, 1):
        return (0x81, 10, b"")
    if m["rc"] != 0:
        return (0x81, 10, b"")
    kind, n = beh
    if kind == "reject":
        return (0x81, 9, b"")
    if kind == "none" or m["mt"] == 1:
        return None
    return (0x80, 0, payload(n, 3) if kind == "bytes" else b"")


def run_case(case):
    methods = {}
    for mid, kind, n in case["methods"]:
        methods.setdefault(mid, (kind, n))
    msgs = case["msgs"]
    nontrivial = False
    labels = set()
    with Sim() as sim:
        svc = _Svc(1)
        tr = FakeTransport(sim, ("10.0.0.1", 30501))
        svc.transport = tr
        calls = []
        for mid, (kind, n) in methods.items():
            def handler(msg, addr, _k=kind, _n=n, _mid=mid):
                calls.append((_mid, msg.payload))
                if _k == "reject":
                    raise service.MalformedMessageError()
                if _k == "none":
                    return None
                return payload(_n, 3) if _k == "bytes" else b""
            svc.register_method(mid, handler)

        def deliver(group):
            a = SENDERS[group[0]["src"] % len(SENDERS)]
            mc = group[0]["mc"]
            encs = [wire.encode_someip(m["svc"], m["meth"], m["cli"], m["ses"], m["iv"], m["mt"], m["rc"], payload(m["plen"], 1)) for m in group]
            if case.get("via") == "obj":
                for m, e in zip(group, encs):
                    obj, _ = hdr.SOMEIPHeader.parse(e)
                    svc.message_received(obj, a, mc)
            else:
                svc.datagram_received(b"".join(encs), a, mc)
            return a

        # group consecutive messages with the same sender/channel into one datagram (bytes mode)
        groups = []
        for m in msgs:
            if case.get("via") == "bytes" and groups and (groups[-1][0]["src"], groups[-1][0]["mc"]) == (m["src"], m["mc"]):
                groups[-1].append(m)
            else:
                groups.append([m])
        for g in groups:
            before = len(tr.sent)
            a = deliver(g)
            sim.settle()
            got = tr.sent[before:]
            exp = [(m, expected(m, methods)) for m in g]
            exp = [(m, e) for m, e in exp if e is not None]
            require(len(got) == len(exp), "C16.reply-count",
                    lambda: f"{len(got)} replies for {[(m['svc'], m['iv'], m['meth'], m['mt'], m['rc'], m['mc']) for m in g]}, expected {len(exp)}: {[e for _, e in exp]}")
            for (t, dest, data), (m, (mt, rc, pl)) in zip(got, exp):
                require(dest == a, "C16.reply-destination", lambda: f"reply sent to {dest}, request came from {a}")
                f, rest = wire.decode_someip(data)
                require(rest == b"", "C16.reply-format", "trailing bytes after the reply")
                want = dict(service=m["svc"], method=m["meth"], client=m["cli"], session=m["ses"], iface=m["iv"], proto=1, mtype=mt, rcode=rc, payload=pl)
                gotf = {k: f[k] for k in want}
                require(gotf == want, "C16.reply-content",
                        lambda: f"request (svc={m['svc']:#x} iv={m['iv']} meth={m['meth']:#x} type={m['mt']:#x} rc={m['rc']} cli={m['cli']:#x} ses={m['ses']:#x}) got reply { {k: (v if k != 'payload' else len(v)) for k, v in gotf.items()} }, expected { {k: (v if k != 'payload' else len(v)) for k, v in want.items()} }")
            for m in g:
                fails = sum([m["svc"] != SID, m["iv"] != VER, m["meth"] not in methods, m["mt"] not in (0, 1), m["rc"] != 0])
                beh = methods.get(m["meth"], ("", 0))[0]
                if fails >= 2 or m["mt"] == 1 or beh in ("reject", "none"):
                    nontrivial = True
                labels.add(f"fails={min(fails, 3)}")
                labels.add("mc" if m["mc"] else "uc")
        require(not sim.loop.errors, "C16.loop-error", lambda: str(sim.loop.errors[:2]))
    return ok(nontrivial, sorted(labels) + [f"via={case.get('via')}"])
