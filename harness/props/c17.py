"""C17 - Event notifications reach exactly the current subscribers, correctly addressed."""
from __future__ import annotations

import collections

from hypothesis import strategies as st

from .. import hist, wire
from ..engine import ok, require
from ..simkit import ADDRS, FakeTransport, Sim, make_sd, sd, sd_bytes, sent_entries, service, timings
from ..vloop import RES
from .c08 import EPS, _ep, _ep_addr

PID = "C17"
RULE = (
    "exhaustive: every script of bounded length over {subscribe / unsubscribe of two endpoints, of one endpoint to the cyclic eventgroup, notify_once, value update} x {one loop iteration later without idle point, +0.6 s}, directly and through the wire; random: cases = a SimpleService with eventgroup 1 (explicit notifications, 1..4 events) and eventgroup 2 (cyclic, interval "
    "0.5 s, 1..2 events) and scripts of client_subscribed / client_unsubscribed for 3 endpoints (IPv4 and IPv6; also "
    "subscriptions naming 0 or 2 endpoints or an unknown eventgroup, repeated subscribes and unsubscribes of endpoints that "
    "are not subscribed; the same scripts also through the wire, as Subscribe / StopSubscribe datagrams to a discovery endpoint on which the service is announced), value updates by item assignment and by setting `values` to a new dict (same events or one more), notify_once for any subset of events, and waits across cyclic rounds; steps at "
    "distinct instants, inside one iteration, or a few loop iterations after the previous step without an idle point (while a round is suspended in its address look-ups). Every datagram is decoded independently. non-trivial = >= 2 endpoints with "
    "different subscription intervals and a notification round between, or a refused subscription, or a cyclic round with "
    "a changed value; distinct = distinct case JSON"
)
ASSUMPTIONS = [
    "endpoint-level set semantics: a subscribe adds the endpoint, an unsubscribe removes it if present (an unsubscribe of an endpoint that is not subscribed changes nothing)",
    "steps sharing one loop iteration with an explicit round: for an endpoint whose membership changes after the round was requested (or, through the wire, anywhere in that iteration) being notified and not being notified are both accepted; the payload of every notification must be the event's value at the moment the datagram is handed to the transport",
    "the schedule of cyclic rounds is not fixed by the statement: every cyclic round must be complete and go to exactly the current subscribers, and a subscriber that stays longer than two intervals must see a round",
]
BUDGET = {"quick": {"examples": 8000, "shrink": 300}, "thorough": {"examples": 300000, "shrink": 2000}}
INTERVAL = 0.5
SID, MAJOR = 0xB0A7, 4

when_st = st.one_of(st.tuples(st.just("d"), st.sampled_from([0.001, 0.01, 0.1, 0.3, 0.5, 0.6, 1.2])).map(list), st.just(["s"]),
                    st.tuples(st.just("i"), st.integers(1, 3)).map(list))


@st.composite
def _step(draw):
    op = draw(st.sampled_from(["sub", "sub", "sub", "unsub", "unsub", "notify", "notify", "set", "set", "rebind", "badsub", "wait"]))
    s = {"op": op, "when": draw(when_st)}
    if op == "rebind":
        # the eventgroup's `values` attribute is set to a new dict: same events or one event more
        s.update(eg=draw(st.sampled_from([1, 2, 2])), how=draw(st.sampled_from(["same", "add", "add"])), val=draw(st.binary(max_size=4)).hex())
    if op in ("sub", "unsub"):
        s.update(ep=draw(st.integers(0, 2)), eg=draw(st.sampled_from([1, 1, 2])))
    elif op == "notify":
        s["mask"] = draw(st.integers(0, 15))
    elif op == "set":
        s.update(eg=draw(st.sampled_from([1, 1, 2])), ev=draw(st.integers(0, 3)), val=draw(st.binary(max_size=6)).hex())
    elif op == "badsub":
        s.update(kind=draw(st.sampled_from(["none", "two", "unknown-eg"])), ep=draw(st.integers(0, 2)))
    return s


def strategy(tier):
    return st.builds(lambda n1, n2, steps, via: {"n1": n1, "n2": n2, "steps": steps, "via": via}, st.integers(1, 4), st.integers(1, 2),
                     st.lists(_step(), min_size=1, max_size=14), st.sampled_from(["direct", "direct", "sd"]))


ALPHA = ["sub0", "sub1", "unsub0", "unsub1", "sub0c", "unsub0c", "notify", "set", "hop", "+0.6"]
ENUM_LEN = {"quick": 4, "thorough": 5}
EXHAUSTIVE = {"quick": "all 10^4 scripts of length 4 over {subscribe/unsubscribe of two endpoints to the explicit eventgroup, of one endpoint to the cyclic eventgroup, notify_once, value update} x timing prefixes {one loop iteration later without idle point, +0.6 s}, directly and through the wire",
              "thorough": "all 10^5 scripts of length 5 over the same alphabet, directly and through the wire"}


def enum_size(tier):
    return 2 * len(ALPHA) ** ENUM_LEN[tier]


def enum_case(tier, idx):
    idx, via = divmod(idx, 2)
    steps = []
    when = ["d", 0.01]
    for _ in range(ENUM_LEN[tier]):
        idx, r = divmod(idx, len(ALPHA))
        a = ALPHA[r]
        if a == "hop":
            when = ["i", 1]
            continue
        if a == "+0.6":
            when = ["d", 0.6]
            continue
        if a == "notify":
            steps.append({"op": "notify", "mask": 3, "when": when})
        elif a == "set":
            steps.append({"op": "set", "eg": 1, "ev": 0, "val": "%02x" % (len(steps) + 1), "when": when})
        else:
            steps.append({"op": "unsub" if a.startswith("unsub") else "sub", "ep": 1 if a.rstrip("c").endswith("1") else 0, "eg": 2 if a.endswith("c") else 1, "when": when})
        when = ["d", 0.01]
    return {"n1": 2, "n2": 1, "via": "sd" if via else "direct", "steps": [{"op": "sub", "ep": 2, "eg": 1, "when": ["d", 0.01]}] + steps + [{"op": "notify", "mask": 3, "when": ["d", 0.05]}]}


def fixed_cases(tier):
    S = lambda ep, eg, w: {"op": "sub", "ep": ep, "eg": eg, "when": w}       # noqa: E731
    U = lambda ep, eg, w: {"op": "unsub", "ep": ep, "eg": eg, "when": w}     # noqa: E731
    N = lambda mask, w: {"op": "notify", "mask": mask, "when": w}           # noqa: E731
    d = ["d", 0.1]
    return [
        {"n1": 3, "n2": 1, "steps": [S(0, 1, d), S(1, 1, d), S(2, 1, d), N(7, d), N(2, d), U(1, 1, d), N(7, d), U(0, 1, d), U(2, 1, d), N(7, d)]},
        {"n1": 2, "n2": 2, "steps": [S(0, 2, d), {"op": "wait", "when": ["d", 1.2]}, S(1, 2, d), {"op": "set", "eg": 2, "ev": 0, "val": "aa", "when": d}, {"op": "wait", "when": ["d", 1.2]}, U(0, 2, d), {"op": "wait", "when": ["d", 1.2]}]},
        {"n1": 2, "n2": 1, "steps": [S(0, 1, d), U(1, 1, d), N(3, d), U(1, 2, d), N(3, d), S(0, 1, d), N(1, d)]},   # unsubscribe of a non-member, repeated subscribe
        {"n1": 1, "n2": 1, "steps": [S(0, 2, d), U(1, 2, d), {"op": "wait", "when": ["d", 1.2]}, U(0, 2, d), S(1, 2, ["d", 0.2]), {"op": "wait", "when": ["d", 1.2]}]},
        {"n1": 2, "n2": 1, "steps": [{"op": "badsub", "kind": k, "ep": 0, "when": d} for k in ("none", "two", "unknown-eg")] + [N(3, d), S(0, 1, d), N(3, d)]},
        {"n1": 2, "n2": 1, "via": "sd", "steps": [S(0, 1, d), S(1, 1, d), S(1, 2, d), N(3, d), S(0, 1, d), U(0, 1, d), U(0, 1, d), N(3, d), {"op": "wait", "when": ["d", 1.2]},
                                                  {"op": "badsub", "kind": "two", "ep": 2, "when": d}, {"op": "badsub", "kind": "none", "ep": 2, "when": d}, {"op": "badsub", "kind": "unknown-eg", "ep": 2, "when": d}, N(3, d)]},
        # membership changes while a round is suspended in its address look-ups
        *[{"n1": 2, "n2": 1, "steps": [S(0, 1, d), S(1, 1, d), S(2, 1, d), N(3, d), (U if k % 2 else S)(k % 3, 1, ["i", 1 + k // 2]), N(3, d), N(3, d)]} for k in range(6)],
    ]


class _Svc(service.SimpleService):
    service_id = SID
    version_major = MAJOR
    version_minor = 1


def _subscription(eps, eg):
    return sd.EventgroupSubscription(service_id=SID, instance_id=1, major_version=MAJOR, id=eg, counter=0, ttl=3,
                                     endpoints=frozenset(_ep(i) for i in eps))


def run_case(case):
    n1, n2 = max(1, min(4, case.get("n1", 1))), max(1, min(2, case.get("n2", 1)))
    steps = case["steps"]
    feats = collections.Counter()
    with Sim() as sim:
        svc = _Svc(1)
        values = {}
        snaps = []   # values current at the moment each datagram is handed to the transport
        tr = FakeTransport(sim, ("10.0.0.1", 30500), on_send=lambda t_, d_, b_: snaps.append(dict(values)))
        svc.transport = tr
        eg1 = service.SimpleEventgroup(svc, id=1)
        eg2 = service.SimpleEventgroup(svc, id=2, interval=INTERVAL)
        svc.register_eventgroup(eg1)
        svc.register_eventgroup(eg2)
        groups = {1: eg1, 2: eg2}
        events = {1: [0x10 + i for i in range(n1)], 2: [0x20 + i for i in range(n2)]}
        for g, evs in events.items():
            for ev in evs:
                values[ev] = bytes([ev])
                groups[g].values[ev] = values[ev]
        via_sd = case.get("via") == "sd"
        prot = None
        if via_sd:
            # the same scripts through the wire: the service is announced on a discovery endpoint and the subscriptions
            # arrive as Subscribe / StopSubscribe datagrams (infinite TTL) from one SD peer per notification endpoint
            prot = make_sd(sim, timings(SEND_COLLECTION_TIMEOUT=0, CYCLIC_OFFER_DELAY=1, ANNOUNCE_TTL=3))
            svc.start_announce(prot.announcer)
            prot.announcer.start()
            sim.advance(0.01)
        sd_sess = collections.Counter()
        sd_seen = [0]
        sd_expect = collections.Counter()    # (peer, eventgroup, ttl) acks expected from this group
        subs = {1: set(), 2: set()}          # model: endpoint indexes
        since = {}                           # (eg, ep) -> time subscribed (for the cyclic liveness clause)
        seen = [0]
        counts = collections.Counter()       # destination -> messages so far (session ids)
        pend = {"must": collections.Counter(), "may": collections.Counter()}   # (dest, event, payload) expected from this group
        group_changes = {"members": set(), "values": set()}
        cyc_rounds = []

        def expect(kind, ep, ev, val):
            pend[kind][(_ep_addr(ep), ev, val)] += 1

        opseq = [0]

        def execute(k, s):
            op = s["op"]
            in_group[0] = True
            opseq[0] += 1
            if op in ("sub", "unsub"):
                group_changes.setdefault("member_ops", []).append((opseq[0], s.get("eg", 1) if s.get("eg", 1) in (1, 2) else 1, s.get("ep", 0) % len(EPS)))
            if via_sd and op in ("sub", "unsub", "badsub"):
                ep = s.get("ep", 0) % len(EPS)
                g = s.get("eg", 1) if s.get("eg", 1) in (1, 2) else 1
                peer = ADDRS[ep]
                sd_sess[peer] += 1
                eps = [[EPS[ep][0], EPS[ep][1], 17]]
                ttl = 0xFFFFFF
                if op == "badsub":
                    kind = s.get("kind", "none")
                    feats["refused"] += 1
                    if kind == "none":
                        eps = []
                    elif kind == "two":
                        eps = eps + [[EPS[(ep + 1) % len(EPS)][0], EPS[(ep + 1) % len(EPS)][1], 17]]
                    else:
                        g = 9
                    sd_expect[(peer, g, 0)] += 1
                elif op == "sub":
                    sd_expect[(peer, g, ttl)] += 1
                    if ep not in subs[g]:   # a repeated Subscribe is a refresh: the listener is not asked again, no initial notification
                        subs[g].add(ep)
                        since.setdefault((g, ep), sim.now)
                        group_changes["members"].add((g, ep))
                        for ev in events[g]:
                            group_changes.setdefault("initial", []).append((ep, ev, values[ev]))
                else:
                    ttl = 0
                    subs[g].discard(ep)
                    since.pop((g, ep), None)
                    group_changes["members"].add((g, ep))
                entry = {"t": "sub" if ttl else "stopsub", "svc": SID, "inst": 1, "major": MAJOR, "eg": g, "ttl": ttl, "eps": eps}
                prot.datagram_received(sd_bytes([entry], sd_sess[peer], reboot=True), peer, False)
            elif op == "sub":
                ep, g = s["ep"] % len(EPS), s["eg"] if s["eg"] in (1, 2) else 1
                try:
                    svc.client_subscribed(_subscription([ep], g), ("10.0.0.99", 30490))
                except sd.NakSubscription:
                    require(False, "C17.valid-subscription-refused", f"subscription of endpoint {EPS[ep]} to eventgroup {g} was refused")
                subs[g].add(ep)
                since.setdefault((g, ep), sim.now)
                group_changes["members"].add((g, ep))
                for ev in events[g]:
                    group_changes.setdefault("initial", []).append((ep, ev, values[ev]))
            elif op == "unsub":
                ep, g = s["ep"] % len(EPS), s["eg"] if s["eg"] in (1, 2) else 1
                svc.client_unsubscribed(_subscription([ep], g), ("10.0.0.99", 30490))
                subs[g].discard(ep)
                since.pop((g, ep), None)
                group_changes["members"].add((g, ep))
            elif op == "badsub":
                kind = s.get("kind", "none")
                ep = s.get("ep", 0) % len(EPS)
                sub = _subscription({"none": [], "two": [ep, (ep + 1) % len(EPS)]}.get(kind, [ep]), 9 if kind == "unknown-eg" else 1)
                n_before = len(tr.sent)
                try:
                    svc.client_subscribed(sub, ("10.0.0.99", 30490))
                    refused = False
                except sd.NakSubscription:
                    refused = True
                feats["refused"] += 1
                require(refused, "C17.bad-subscription-accepted", f"a subscription naming {kind} was accepted")
                require(subs[1] == {i for i in range(len(EPS)) if _ep(i) in eg1.subscribed_endpoints} and len(tr.sent) == n_before, "C17.refusal-changed-state", f"refusing a subscription ({kind}) changed state")
            elif op == "set":
                g = s["eg"] if s["eg"] in (1, 2) else 1
                ev = events[g][s["ev"] % len(events[g])]
                group_changes.setdefault("history", {}).setdefault(ev, [values[ev]])
                values[ev] = bytes.fromhex(s.get("val", ""))
                group_changes["history"][ev].append(values[ev])
                groups[g].values[ev] = values[ev]
                group_changes["values"].add(ev)
            elif op == "rebind":
                g = s.get("eg", 1) if s.get("eg", 1) in (1, 2) else 1
                how = s.get("how", "same")
                if how == "add" and len(events[g]) < 5:
                    ev = 0x10 * g + len(events[g])
                    events[g].append(ev)
                    values[ev] = bytes.fromhex(s.get("val", "")) + bytes([ev])
                    feats["event-added"] += 1
                    # a subscription made earlier in this very iteration may be handled after this (a Subscribe datagram's
                    # entries are dispatched one iteration later): its initial notifications may cover the new event
                    group_changes.setdefault("history", {}).setdefault(ev, [values[ev]])
                    for g_, ep_ in list(group_changes["members"]):
                        if g_ == g:
                            group_changes.setdefault("initial_may", []).append((ep_, ev))
                for ev in events[g]:
                    group_changes["values"].add(ev)
                    group_changes.setdefault("history", {}).setdefault(ev, [values[ev]])
                groups[g].values = {ev: values[ev] for ev in events[g]}
            elif op == "notify":
                evs = [ev for i, ev in enumerate(events[1]) if s.get("mask", 0) & (1 << i)]
                group_changes.setdefault("rounds", []).append((set(subs[1]), list(evs), dict(values), opseq[0]))
                eg1.notify_once(evs)

        def after_group(i0, i1):
            if via_sd:
                acks = collections.Counter((e["dest"], e["eventgroup"], e["ttl"]) for e in sent_entries(prot.transport, sd_seen[0]) if e["type"] == wire.SUBSCRIBE_ACK)
                sd_seen[0] = len(prot.transport.sent)
                if i0 >= 0:
                    require(acks == sd_expect, "C17.sd-acknowledgement",
                            lambda: f"steps {i0}..{i1 - 1}: SubscribeAck entries (peer, eventgroup, ttl) {dict(acks)}, expected {dict(sd_expect)} (a subscription naming other than exactly one endpoint, or an unknown eventgroup, is refused)")
                    sd_expect.clear()
            # explicit rounds: membership / values may have changed later within the same iteration
            for members, evs, vals, rseq in group_changes.get("rounds", []):
                changed_after = {e_ for (q_, g_, e_) in group_changes.get("member_ops", []) if g_ == 1 and q_ > rseq}
                for ep in set(members) | subs[1] | {e_ for (g_, e_) in group_changes["members"] if g_ == 1}:
                    if via_sd:
                        # Subscribe datagrams are dispatched one iteration after they arrive: any change inside the group is ambiguous
                        stable_member = ep in members and ep in subs[1] and (1, ep) not in group_changes["members"]
                    else:
                        # direct calls take effect at once: a member when the round was requested that nobody touched afterwards
                        stable_member = ep in members and ep not in changed_after
                    for ev in evs:
                        stable_val = ev not in group_changes["values"]
                        if stable_member and stable_val:
                            expect("must", ep, ev, values[ev])
                        else:
                            for v_ in set(group_changes.get("history", {}).get(ev, [])) | {vals[ev], values[ev]}:
                                expect("may", ep, ev, v_)
            # initial notifications: the value at issue time, or - if it was changed later in the same iteration - the new one
            for ep, ev, val in group_changes.get("initial", []):
                if ev in group_changes["values"]:
                    for v_ in set(group_changes.get("history", {}).get(ev, [])) | {val, values[ev]}:
                        expect("may", ep, ev, v_)
                else:
                    expect("must", ep, ev, val)
            for ep, ev in group_changes.get("initial_may", []):
                for v_ in set(group_changes.get("history", {}).get(ev, [])) | {values[ev]}:
                    expect("may", ep, ev, v_)
            new = tr.sent[seen[0]:]
            seen_before = seen[0]
            seen[0] = len(tr.sent)
            got = collections.Counter()
            cyc = collections.defaultdict(collections.Counter)   # time -> (dest, event, payload) for eventgroup 2 beyond initial
            for j_, (t, dest, data) in enumerate(new, start=seen_before):
                msgs = wire.split_datagram(data)
                for m in msgs:
                    ev_ = m["method"] & 0x7FFF
                    cur = snaps[j_].get(ev_)
                    require(cur is not None and m["payload"] == cur, "C17.stale-value",
                            lambda: f"notification of event {ev_:#x} handed to the transport at t={t:.6f} for {dest} carries {m['payload'].hex()!r}, the event's value at that moment is {cur.hex() if cur is not None else None!r}")
                require(msgs and sum(16 + len(m["payload"]) for m in msgs) == len(data), "C17.datagram-format", lambda: f"undecodable notification datagram {data[:40].hex()}")
                for m in msgs:
                    counts[dest] += 1
                    ev = m["method"] & 0x7FFF
                    require((m["service"], m["iface"], m["mtype"], m["rcode"], m["proto"], m["method"] & 0x8000) == (SID, MAJOR, 2, 0, 1, 0x8000), "C17.notification-fields",
                            lambda: f"notification to {dest}: service {m['service']:#x} method {m['method']:#x} interface version {m['iface']} type {m['mtype']:#x} return code {m['rcode']}")
                    require(m["session"] == ((counts[dest] - 1) % 65535) + 1, "C17.session-id", lambda: f"message #{counts[dest]} to {dest} carries session id {m['session']}")
                    key = (dest, ev, m["payload"])
                    if ev in events[2] and pend["must"][key] + pend["may"][key] - got[key] <= 0:
                        cyc[round(t, 9)][key] += 1
                    else:
                        got[key] += 1
            missing = pend["must"] - got
            extra = got - pend["must"] - pend["may"]
            require(not missing and not extra, "C17.notifications",
                    lambda: f"steps {i0}..{i1 - 1} at t={sim.now:.6f}: missing notifications (dest, event, payload) {dict(missing)}, unexpected {dict(extra)}; subscribed eg1={sorted(EPS[e] for e in subs[1])} eg2={sorted(EPS[e] for e in subs[2])}")
            for T, c in cyc.items():
                cyc_rounds.append(T)
                want = collections.Counter((_ep_addr(ep), ev, values[ev]) for ep in subs[2] for ev in events[2])
                if group_changes["members"] or group_changes["values"]:
                    continue   # a cyclic round inside a group that changes membership or values: not judged
                require(c == want, "C17.cyclic-round",
                        lambda: f"cyclic round at t={T:.6f}: sent {dict(c)}, expected one per event to exactly the subscribers {sorted(EPS[e] for e in subs[2])}: {dict(want)}")
            pend["must"].clear()
            pend["may"].clear()
            group_changes.clear()
            group_changes.update(members=set(), values=set())

        in_group = [False]

        def check_idle():
            # cyclic rounds also fall between steps
            if tr.sent[seen[0]:] and not in_group[0]:
                after_group(-1, -1)
            for (g, ep), t0 in since.items():
                if g == 2 and sim.now - t0 > 2 * INTERVAL + 0.01:
                    require(any(t0 < T <= sim.now + RES for T in cyc_rounds), "C17.cyclic-missing",
                            lambda: f"endpoint {EPS[ep]} subscribed to the cyclic eventgroup since {t0:.6f}, now {sim.now:.6f}, but no cyclic round was sent (rounds {cyc_rounds[-4:]})")

        def grp_end(i0, i1):
            after_group(i0, i1)
            in_group[0] = False
            if len(subs[1]) >= 2 or len(subs[2]) >= 2:
                feats["multi-endpoint"] += 1

        sim.idle_hooks.append(check_idle)
        hist.drive(sim, steps, execute, grp_end)
        sim.advance(1.3)
        check_idle()
        require(not sim.loop.errors, "C17.loop-error", lambda: str(sim.loop.errors[:2]))
        errs = [e for e in sim.loop.task_errors()]
        require(not errs, "C17.loop-error", lambda: str(errs[:2]))
        if cyc_rounds:
            feats["cyclic-round"] += 1
    return ok(bool(feats) and seen[0] > 0, [f"{k}={'1+' if v else 0}" for k, v in sorted(feats.items())] + [f"events={n1}+{n2}", f"via={'sd' if via_sd else 'direct'}"])
