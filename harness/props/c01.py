"""C01 - SOME/IP message encoding round-trips and matches the wire layout."""
from __future__ import annotations

import hashlib

from hypothesis import strategies as st

from .. import wire
from ..engine import ok, require
from ..simkit import hdr, sd

PID = "C01"
RULE = (
    "cases = datagrams of 0..8 generated SOME/IP messages (boundary-biased 16-bit ids, one in eight a magic-cookie or SD-notification header, exact or with one field redrawn; every message type and "
    "return code, payload lengths boundary-biased up to 70000), an optional suffix (random bytes, a second message, "
    "a truncated header) and an optional corruption of one header field of one message (length incl. 0..7 and "
    "overshoot, protocol version, message type, return code), the block of messages optionally repeated 30/300/1100/4094 times within the 65507 bytes of one UDP datagram; non-trivial = payload >= 65528 bytes, or non-empty "
    "suffix, or >= 2 messages, or a corrupted field; in a third of the cases the receiving endpoint has just sent the same bytes itself; additionally datagrams of 1..6 SD-endpoint messages (well-formed, undecodable SD payload, foreign service, wrong message type) delivered to a discovery endpoint; distinct = distinct case JSON"
)
ASSUMPTIONS = [
    "harness/wire.py (independent codec written from the layout tables) is the reference for layout and for accept/reject",
    "fields are generated inside their wire widths only (the statement's precondition)",
]
BUDGET = {"quick": {"examples": 16000, "shrink": 200}, "thorough": {"examples": 640000, "shrink": 1000, "extra_shards": 8}}
FUZZ_RUNS = {"quick": 0, "thorough": 1000000}
EXHAUSTIVE = "all 10 message types x 11 return codes x 3 payload classes (fixed cases)"

B16 = [0, 1, 0x7FFF, 0x8000, 0xFFFE, 0xFFFF]
PLENS = [0, 1, 2, 7, 8, 9, 255, 256, 4095, 65527, 65528, 65529, 65535, 65536, 65537, 70000]


def payload(n, seed):
    if n == 0:
        return b""
    block = hashlib.sha256(str(seed).encode()).digest()
    return (block * (n // 32 + 1))[:n]


u16 = st.one_of(st.sampled_from(B16), st.integers(0, 0xFFFF))
u8 = st.one_of(st.sampled_from([0, 1, 0x7F, 0x80, 0xFE, 0xFF]), st.integers(0, 0xFF))


@st.composite
def message(draw, big=True):
    plen = draw(st.one_of(st.sampled_from(PLENS if big else PLENS[:9]), st.integers(0, 2048)))
    if draw(st.integers(0, 7)) == 0:
        # a header the specification gives a meaning of its own (magic cookies, SD notification), exact or with one field redrawn
        w = dict(zip(("svc", "meth", "cli", "ses", "iv", "mt", "rc"), draw(st.sampled_from(wire.WELL_KNOWN_HEADERS))))
        w.update(plen=draw(st.sampled_from([0, 0, 12, plen])), pseed=draw(st.integers(0, 9)))
        k = draw(st.sampled_from([None, None, "svc", "meth", "cli", "ses", "iv", "mt", "rc"]))
        if k in ("svc", "meth", "cli", "ses"):
            w[k] = draw(u16)
        elif k == "iv":
            w[k] = draw(u8)
        elif k == "mt":
            w[k] = draw(st.sampled_from(wire.MESSAGE_TYPES))
        elif k == "rc":
            w[k] = draw(st.sampled_from(wire.RETURN_CODES))
        return w
    return dict(
        svc=draw(u16), meth=draw(u16), cli=draw(u16), ses=draw(u16), iv=draw(u8),
        mt=draw(st.sampled_from(wire.MESSAGE_TYPES)), rc=draw(st.sampled_from(wire.RETURN_CODES)),
        plen=plen, pseed=draw(st.integers(0, 9)),
    )


@st.composite
def _case(draw):
    n = draw(st.sampled_from([1, 1, 1, 2, 3, 0, 5, 8]))
    msgs = [draw(message(big=(i == 0))) for i in range(n)]
    sk = draw(st.sampled_from(["none", "none", "bytes", "msg", "trunc"]))
    suffix = {"kind": sk}
    if sk == "bytes":
        suffix["hex"] = draw(st.binary(min_size=1, max_size=40)).hex()
    elif sk == "msg":
        suffix["msg"] = draw(message(big=False))
    elif sk == "trunc":
        suffix["msg"] = draw(message(big=False))
        suffix["cut"] = draw(st.integers(1, 15))
    corrupt = None
    if msgs and draw(st.integers(0, 3)) == 0:
        field = draw(st.sampled_from(["length", "length", "proto", "mtype", "rcode"]))
        idx = draw(st.integers(0, len(msgs) - 1))
        if field == "length":
            val = draw(st.one_of(st.integers(0, 9), st.sampled_from([0xFFFF, 0x10000, 0xFFFFFFFF, 0x80000000]),
                                 st.integers(0, msgs[idx]["plen"] + 40)))
        else:
            val = draw(st.integers(0, 255))
        corrupt = {"idx": idx, "field": field, "value": val}
    # "any number of messages per datagram": the whole block repeated, up to what one UDP datagram can carry (65507 bytes)
    rep = draw(st.sampled_from([1] * 12 + [30, 300, 1100, 4094]))
    return {"msgs": msgs, "suffix": suffix, "corrupt": corrupt, "rep": rep, "echo": draw(st.sampled_from([False, False, True]))}


_sdmsg = st.one_of(st.just({"kind": "ok"}), st.just({"kind": "ok"}), st.just({"kind": "badsd"}), st.just({"kind": "foreign"}), st.just({"kind": "request"}),
                   st.builds(lambda a: {"kind": "cut", "at": a}, st.integers(0, 15)))


def strategy(tier):
    return st.one_of(_case(), _case(), _case(), st.builds(lambda ms, mc: {"kind": "sdgram", "msgs": ms, "mc": mc}, st.lists(_sdmsg, min_size=1, max_size=6), st.booleans()))


def fixed_cases(tier):
    out = []
    small = dict(svc=0x1234, meth=0x8001, cli=1, ses=1, iv=1, mt=wire.MESSAGE_TYPES[0], rc=wire.RETURN_CODES[0], plen=0, pseed=1)
    for rep in (2, 100, 1000, 2000, 4094):   # a full UDP datagram of minimal messages
        out.append({"msgs": [small, dict(small, plen=4, ses=2)], "suffix": {"kind": "none"}, "corrupt": None, "rep": rep})
    for mt in wire.MESSAGE_TYPES:
        for rc in wire.RETURN_CODES:
            for plen in (0, 9, 65528):
                out.append({"msgs": [dict(svc=0x1234, meth=0x8001, cli=0xFFFF, ses=1, iv=0xFE, mt=mt, rc=rc,
                                          plen=plen, pseed=1)],
                            "suffix": {"kind": "bytes", "hex": "00"}, "corrupt": None})
    return out


def _lib_msg(m):
    return hdr.SOMEIPHeader(
        service_id=m["svc"], method_id=m["meth"], client_id=m["cli"], session_id=m["ses"],
        interface_version=m["iv"], message_type=hdr.SOMEIPMessageType(m["mt"]),
        return_code=hdr.SOMEIPReturnCode(m["rc"]), payload=payload(m["plen"], m["pseed"]),
    )


def _wire_msg(m, **kw):
    return wire.encode_someip(m["svc"], m["meth"], m["cli"], m["ses"], m["iv"], m["mt"], m["rc"],
                              payload(m["plen"], m["pseed"]), **kw)


def _fields(x):
    return dict(service=x.service_id, method=x.method_id, client=x.client_id, session=x.session_id,
                proto=x.protocol_version, iface=x.interface_version, mtype=int(x.message_type),
                rcode=int(x.return_code), payload=bytes(x.payload))


def _same(libmsg, wf):
    f = _fields(libmsg)
    return all(f[k] == wf[k] for k in f)


class _Sink:
    def sendto(self, data, addr=None):
        pass


class _Rec(sd.SOMEIPDatagramProtocol):
    def __init__(self):
        super().__init__()
        self.got = []

    def message_received(self, someip_message, addr, multicast):
        self.got.append((someip_message, addr, multicast))


def run_raw(data):
    """decoder differential + delivery on arbitrary bytes (inputs of the coverage-guided campaign)"""
    buf = data
    steps = 0
    while buf and steps < 12:
        steps += 1
        try:
            wf, wrest = wire.decode_someip(buf)
            werr = None
        except wire.WireError as e:
            werr = e
        try:
            lm, lrest = hdr.SOMEIPHeader.parse(buf)
            lerr = None
        except hdr.ParseError as e:
            lerr = e
        require((werr is None) == (lerr is None), "C01.accept-differs", lambda: f"independent decoder: {werr!r}; library: {lerr!r}; bytes={buf[:24].hex()}.. len={len(buf)}")
        if werr is not None:
            break
        require(_same(lm, wf) and bytes(lrest) == wrest, "C01.decode-differs", lambda: f"bytes={buf[:24].hex()}")
        require(bytes(lm.build()) == buf[: len(buf) - len(wrest)], "C01.layout", lambda: f"re-encoding differs for {buf[:24].hex()}")
        buf = wrest
    expect = wire.split_datagram(data)
    p = _Rec()
    p.datagram_received(data, ("10.0.0.2", 30490), False)
    require(len(p.got) == len(expect) and all(_same(g[0], e) for g, e in zip(p.got, expect)), "C01.delivery-count", lambda: f"{len(p.got)} delivered, {len(expect)} expected")
    return ok(len(expect) >= 1, ["kind=raw"])


def extra(tier, seed, shard, st):
    import sys
    from ..fuzz import campaign
    campaign.run_shard(sys.modules[__name__], tier, seed, shard, st, runs=FUZZ_RUNS[tier], with_corpus=shard % 2 == 0)


class _RecSD(sd.ServiceDiscoveryProtocol):
    def __init__(self):
        super().__init__(("224.244.224.245", 30490))
        self.tags = []

    def sd_message_received(self, sdhdr, addr, multicast):
        self.tags.append([e.service_id for e in sdhdr.entries])


def run_sdgram(case):
    """several messages in one datagram at a discovery endpoint: the well-formed SD messages reach the application one by
    one, in order, also when a message between them is not an SD notification or carries an undecodable SD payload"""
    from ..simkit import Sim
    parts = []
    expect = []
    for n, m in enumerate(case["msgs"][:8]):
        kind = m.get("kind", "ok")
        tag = 0x100 + n
        b = wire.SDBuilder().add(wire.OFFER, tag, 1, 1, 3, minor=0)
        payload_ = wire.encode_sd(0xC0, b.entries, b.options)
        svc, mt = 0xFFFF, 2
        if kind == "badsd":
            payload_ = payload_[:9] + b"\xff\xff" + payload_[11:]      # entries length overruns
        elif kind == "cut":
            payload_ = payload_[: 8 + m.get("at", 3) % 16]
        elif kind == "foreign":
            svc = 0x1234
        elif kind == "request":
            mt = 0
        parts.append(wire.encode_someip(svc, 0x8100, 0, n + 1, 1, mt, 0, payload_))
        if kind == "ok":
            expect.append([tag])
    with Sim() as sim:
        p = _RecSD()
        p.datagram_received(b"".join(parts), ("10.0.0.2", 30490), bool(case.get("mc")))
        sim.settle()
        require(p.tags == expect, "C01.sd-delivery",
                lambda: f"datagram of {[m.get('kind', 'ok') for m in case['msgs'][:8]]} SD-endpoint messages: delivered {p.tags}, expected {expect}")
    return ok(len(parts) >= 2, ["kind=sdgram", f"msgs={min(len(parts), 3)}"])


def run_case(case):
    if case.get("kind") == "raw":
        return run_raw(bytes.fromhex(case["hex"]))
    if case.get("kind") == "sdgram":
        return run_sdgram(case)
    msgs = case["msgs"]
    suffix = case["suffix"]
    corrupt = case.get("corrupt")
    sk = suffix.get("kind", "none")
    if sk == "bytes":
        sfx = bytes.fromhex(suffix.get("hex", ""))
    elif sk == "msg":
        sfx = _wire_msg(suffix["msg"])
    elif sk == "trunc":
        sfx = _wire_msg(suffix["msg"])[: max(1, min(15, suffix.get("cut", 1)))]
    else:
        sfx = b""

    encs = []
    for m in msgs:
        lm = _lib_msg(m)
        b = lm.build()
        w = _wire_msg(m)
        require(bytes(b) == w, "C01.layout", lambda: f"build()={bytes(b)[:24].hex()}.. independent={w[:24].hex()}.. for {m}")
        # (2) round trip with the suffix appended
        got, rest = hdr.SOMEIPHeader.parse(w + sfx)
        require(got == lm and bytes(rest) == sfx, "C01.roundtrip",
                lambda: f"parse(build+suffix) gave {str(got)[:200]} rest={bytes(rest)[:32].hex()} for {m} suffix={sfx[:32].hex()}")
        encs.append(w)

    if corrupt and msgs:
        i = min(corrupt["idx"], len(msgs) - 1)
        m = msgs[i]
        f, v = corrupt["field"], corrupt["value"]
        if f == "length":
            encs[i] = _wire_msg(m, length=v & 0xFFFFFFFF)
        else:
            b = bytearray(encs[i])
            b[{"proto": 12, "mtype": 14, "rcode": 15}[f]] = v & 0xFF
            encs[i] = bytes(b)

    # (3) decoder differential on every message position of the (possibly corrupted) stream
    data = b"".join(encs) + sfx
    buf = data
    steps = 0
    while buf and steps < 12:
        steps += 1
        try:
            wf, wrest = wire.decode_someip(buf)
            werr = None
        except wire.WireError as e:
            werr = e
        try:
            lm, lrest = hdr.SOMEIPHeader.parse(buf)
            lerr = None
        except hdr.ParseError as e:
            lerr = e
        require((werr is None) == (lerr is None), "C01.accept-differs",
                lambda: f"independent decoder: {werr!r}; library: {lerr!r}; bytes={buf[:24].hex()}.. len={len(buf)}")
        if werr is not None:
            break
        require(_same(lm, wf) and bytes(lrest) == wrest, "C01.decode-differs",
                lambda: f"library {str(lm)[:200]} rest={len(lrest)} vs independent rest={len(wrest)} bytes={buf[:24].hex()}")
        buf = wrest

    # (4) delivery of concatenated messages, one by one, in order
    rep = case.get("rep", 1)
    if rep > 1 and encs:
        block = b"".join(encs)
        rep = max(1, min(rep, (65507 - len(sfx)) // len(block)))
        data = block * rep + sfx
    expect = wire.split_datagram(data)
    for mc in (False, True):
        p = _Rec()
        a = ("10.0.0.2", 30490)
        if case.get("echo"):
            # the endpoint itself has just sent the very same bytes (to its default destination and to the sender): what
            # another node sends is delivered all the same
            p.transport = _Sink()
            p.default_addr = ("224.244.224.245", 30490)
            p.send(data)
            p.send(data, remote=a)
        p.datagram_received(data, a, mc)
        require(len(p.got) == len(expect), "C01.delivery-count",
                lambda: f"{len(p.got)} messages delivered, expected {len(expect)}; datagram len={len(data)}")
        for (g, ga, gm), e in zip(p.got, expect):
            require(_same(g, e) and ga == a and gm == mc, "C01.delivery-content",
                    lambda: f"delivered {str(g)[:200]} expected {dict(e, payload=len(e['payload']))}")

    big = any(m["plen"] >= 65528 for m in msgs)
    nontrivial = big or bool(sfx) or len(msgs) >= 2 or bool(corrupt)
    labels = [f"msgs={min(len(msgs), 3)}{'+' if len(msgs) > 3 else ''}", f"suffix={sk}", f"per-datagram={'>1000' if len(expect) > 1000 else ('>100' if len(expect) > 100 else '<=100')}",
              f"corrupt={corrupt['field'] if corrupt else 'no'}", "big" if big else "small"]
    return ok(nontrivial, labels)
