"""C14 - Client subscription messages mirror the requested subscription set."""
from __future__ import annotations

import collections

from hypothesis import strategies as st

from .. import hist, wire
from ..engine import ok, require
from ..simkit import ADDRS, Sim, cfg, desc_semantic, ep_desc, hdr, install_random, late, make_sd, sent_entries, timings
from ..vloop import RES

PID = "C14"
# servers 3 and 4 differ from servers 1 and 0 in the IPv6 scope id / in the port only
SRV = ADDRS + [("2001:db8::3", 30490, 0, 7), ("10.0.0.2", 30491)]
RULE = (
    "exhaustive: every script of bounded length over {subscribe / stop-subscribe of two eventgroups, start, stop} x timing prefixes relative to the refresh tick, finite TTL with refresh and infinite TTL without; random: cases = scripts of subscribe_eventgroup / stop_subscribe_eventgroup (no duplicate subscribes of a pair) / start / stop "
    "of the ServiceSubscriber for 6 eventgroups (IPv4 and IPv6 local endpoints, UDP and TCP, two of them with the same ids "
    "but different local endpoints, two pairs sharing a local address and port with different transport protocols) and 5 servers (two of them differing from another one in the IPv6 scope id or the port only), with SUBSCRIBE_TTL 5 and refresh interval from {1, 3} or infinite TTL (passed to the constructor or assigned to the protocol object's Timings afterwards) "
    "without refresh; steps placed by delay, relative to the pending refresh tick (-4RES, -RES/4, +RES/4, +4RES, halfway) or "
    "inside one iteration (several calls, both orders). A model server per destination applies the transmitted Subscribe / "
    "StopSubscribe entries in order. non-trivial = stop-subscribe and subscribe of the same eventgroup in one iteration, or "
    "a call within 4 RES of a refresh tick, or stop/start with requested entries; distinct = distinct case JSON"
)
ASSUMPTIONS = [
    "the model server identifies a subscription by (service, instance, major, eventgroup, endpoint option) per destination address",
    "connection loss is not part of this property's quantifier (no StopSubscribe can be sent then)",
]
BUDGET = {"quick": {"examples": 8000, "shrink": 300}, "thorough": {"examples": 480000, "shrink": 2000}}
INF = 0xFFFFFF
EGS = [
    (0x5000, 1, 1, 1, ("10.0.0.1", 5000), 17),
    (0x5000, 1, 1, 2, ("2001:db8::1", 5001, 0, 0), 17),
    (0x5001, 2, 3, 1, ("10.0.0.1", 5002), 6),
    (0x5000, 1, 1, 1, ("10.0.0.1", 5003), 17),
    (0x5002, 1, 1, 3, ("10.0.0.1", 5000), 6),       # same local address and port as the first one, TCP instead of UDP
    (0x5002, 1, 1, 4, ("2001:db8::1", 5001, 0, 0), 6),
]

when_st = st.one_of(
    st.tuples(st.just("d"), st.sampled_from([0.0, 0.001, 0.1, 0.5, 1.0, 2.9, 3.0, 3.1])).map(list),
    st.tuples(st.just("t"), st.integers(0, 1), st.sampled_from(["-4", "-q", "+q", "+4", "half"])).map(list),
    st.just(["s"]), st.just(["s"]),
)


@st.composite
def _step(draw):
    op = draw(st.sampled_from(["sub", "sub", "sub", "unsub", "unsub", "start", "stop", "wait"]))
    s = {"op": op, "when": draw(when_st)}
    if op in ("sub", "unsub"):
        s.update(e=draw(st.integers(0, 5)), srv=draw(st.sampled_from([0, 1, 2, 0, 1, 2, 3, 4])))
    return s


def strategy(tier):
    return st.builds(lambda ttl, steps, lt: {"ttl": ttl, "steps": steps, "late": lt}, st.sampled_from([[5, 1], [5, 3], [5, 3], [INF, None]]), st.lists(_step(), min_size=1, max_size=14),
                     st.booleans())


ALPHA = ["subA", "unsubA", "subB", "unsubB", "start", "stop", "T-q", "T+q", "+1.2", "same"]
ENUM_LEN = {"quick": 5, "thorough": 6}
EXHAUSTIVE = {"quick": "all 10^5 scripts of length 5 over {subscribe/stop-subscribe of two eventgroups at one server, start, stop} x timing prefixes {refresh tick -RES/4, +RES/4, +1.2 s, same loop iteration as the previous call}, for finite TTL with refresh and infinite TTL without",
              "thorough": "all 10^6 scripts of length 6 over the same alphabet, for both TTL configurations"}


def enum_size(tier):
    return 2 * len(ALPHA) ** ENUM_LEN[tier]


def enum_case(tier, idx):
    idx, cfgi = divmod(idx, 2)
    steps = []
    when = ["d", 0.01]
    for _ in range(ENUM_LEN[tier]):
        idx, r = divmod(idx, len(ALPHA))
        a = ALPHA[r]
        if a in ("T-q", "T+q", "+1.2", "same"):
            when = {"T-q": ["t", 0, "-q"], "T+q": ["t", 0, "+q"], "+1.2": ["d", 1.2], "same": ["s"]}[a]
            continue
        if a in ("start", "stop"):
            steps.append({"op": a, "when": when})
        else:
            steps.append({"op": "sub" if a.startswith("sub") else "unsub", "e": 0 if a.endswith("A") else 3, "srv": 0, "when": when})
        when = ["s"] if when == ["d", 0.01] and steps and len(steps) % 2 == 0 else ["d", 0.01]
    return {"ttl": [[5, 1], [INF, None]][cfgi], "steps": [{"op": "start", "when": ["d", 0.01]}] + steps}


def fixed_cases(tier):
    out = []
    for ttl in ([5, 1], [INF, None]):
        S = lambda e, srv, w: {"op": "sub", "e": e, "srv": srv, "when": w}      # noqa: E731
        U = lambda e, srv, w: {"op": "unsub", "e": e, "srv": srv, "when": w}    # noqa: E731
        st0 = {"op": "start", "when": ["d", 0.01]}
        out += [
            {"ttl": ttl, "steps": [st0, S(0, 0, ["d", 0.1]), U(0, 0, ["s"]), {"op": "wait", "when": ["d", 2.5]}]},
            {"ttl": ttl, "steps": [st0, S(0, 0, ["d", 0.1]), U(0, 0, ["d", 0.5]), S(0, 0, ["s"]), {"op": "wait", "when": ["d", 2.5]}]},
            {"ttl": ttl, "steps": [st0, S(0, 0, ["d", 0.1]), S(1, 1, ["s"]), S(2, 2, ["s"]), S(3, 0, ["s"]), {"op": "stop", "when": ["d", 0.5]}, {"op": "wait", "when": ["d", 2.5]}]},
            {"ttl": ttl, "steps": [st0, S(0, 0, ["d", 0.1]), S(4, 0, ["d", 0.1]), S(5, 1, ["s"]), S(1, 1, ["s"]), {"op": "wait", "when": ["d", 2.5]}]},
            {"ttl": ttl, "steps": [S(0, 0, ["d", 0.1]), S(1, 0, ["s"]), st0, {"op": "wait", "when": ["d", 2.5]}, {"op": "stop", "when": ["d", 0.1]}, {"op": "start", "when": ["s"]}, {"op": "wait", "when": ["d", 2.5]}]},
        ]
        for off in ("-4", "-q", "+q", "+4"):
            out.append({"ttl": ttl, "steps": [st0, S(0, 0, ["d", 0.1]), U(0, 0, ["t", 0, off]), S(1, 0, ["s"]), {"op": "wait", "when": ["d", 2.5]}]})
            out.append({"ttl": ttl, "steps": [st0, S(0, 0, ["d", 0.1]), S(1, 0, ["t", 0, off]), U(0, 0, ["s"]), {"op": "wait", "when": ["d", 2.5]}]})
    return out


def _eg(i):
    svc, inst, major, egid, sock, proto = EGS[i % len(EGS)]
    return cfg.Eventgroup(svc, inst, major, egid, sock, hdr.L4Protocols(proto))


def _ident(i):
    svc, inst, major, egid, sock, proto = EGS[i % len(EGS)]
    return (svc, inst, major, egid, desc_semantic(ep_desc(sock[0], sock[1], proto)))


def run_case(case):
    ttl, refresh = case.get("ttl", [5, 3])
    if ttl != INF:
        ttl, refresh = 5, (refresh if refresh in (1, 3) else 3)
    else:
        refresh = None
    steps = case["steps"]
    feats = collections.Counter()
    with Sim() as sim:
        install_random([0.5])
        tm = timings(SUBSCRIBE_TTL=ttl, SUBSCRIBE_REFRESH_INTERVAL=refresh)
        tm0, apply_timings = late(tm, bool(case.get("late")))   # timings given to the constructor or assigned afterwards
        prot = make_sd(sim, tm0)
        apply_timings(prot)
        sub = prot.subscriber
        requested = set()      # (eventgroup index, server index)
        running = [False]
        held = collections.defaultdict(set)   # server address -> identities
        seen = [0]
        intervals = {}         # pair -> [start, end] of the current requested-and-running interval
        closed = []            # (pair, start, end)
        tx = collections.defaultdict(list)    # (server addr, identity) -> subscribe transmission times

        def open_iv(p):
            intervals[p] = sim.now

        def close_iv(p):
            if p in intervals:
                closed.append((p, intervals.pop(p), sim.now))

        def execute(k, s):
            op = s["op"]
            if op == "sub":
                p = (s["e"] % len(EGS), s["srv"] % len(SRV))
                if p in requested:
                    return
                if any(q[0] == p[0] and q[1] == p[1] for q in requested):
                    return
                requested.add(p)
                if running[0]:
                    open_iv(p)
                sub.subscribe_eventgroup(_eg(p[0]), SRV[p[1]])
            elif op == "unsub":
                p = (s["e"] % len(EGS), s["srv"] % len(SRV))
                if p not in requested:
                    return
                requested.discard(p)
                close_iv(p)
                sub.stop_subscribe_eventgroup(_eg(p[0]), SRV[p[1]])
            elif op == "start":
                if running[0]:
                    return
                running[0] = True
                if requested:
                    feats["start-stop-with-entries"] += 1
                for p in requested:
                    open_iv(p)
                sub.start()
            elif op == "stop":
                if not running[0]:
                    return
                running[0] = False
                if requested:
                    feats["start-stop-with-entries"] += 1
                for p in list(intervals):
                    close_iv(p)
                sub.stop()

        def check_idle():
            for e in sent_entries(prot.transport, seen[0]):
                require(e["type"] == wire.SUBSCRIBE, "C14.other-entries", lambda: f"the subscriber sent {e}")
                require(len(e["run1"]) + len(e["run2"]) == 1, "C14.endpoint-option", lambda: f"Subscribe entry with options {e['run1']} {e['run2']}")
                ident = (e["service"], e["instance"], e["major"], e["eventgroup"], (e["run1"] + e["run2"])[0])
                known = [i for i in range(len(EGS)) if _ident(i) == ident]
                require(known, "C14.entry-content", lambda: f"Subscribe entry {ident} names no configured eventgroup / local endpoint; configured {[_ident(i) for i in range(len(EGS))]}")
                require(e["counter"] == 0, "C14.entry-content", lambda: f"counter {e['counter']}")
                require(e["dest"] in SRV, "C14.destination", lambda: f"sent to {e['dest']}")
                if e["ttl"] == 0:
                    held[e["dest"]].discard(ident)
                else:
                    require(e["ttl"] == ttl, "C14.ttl", lambda: f"Subscribe carries TTL {e['ttl']}, configured {ttl}")
                    held[e["dest"]].add(ident)
                    tx[(e["dest"], ident)].append(e["t"])
            seen[0] = len(prot.transport.sent)
            for si, a in enumerate(SRV):
                want = {_ident(e) for (e, s_) in requested if s_ == si} if running[0] else set()
                require(held[a] == want, "C14.server-state",
                        lambda: f"at idle t={sim.now:.6f} (subscriber {'running' if running[0] else 'stopped'}) a server at {a} applying the entries it was sent holds {sorted(held[a])}, requested from it: {sorted(want)}")

        sim.idle_hooks.append(check_idle)
        last_ops = []
        for s in steps:
            w = s.get("when", ["d", 0.01])
            if w[0] == "t" and w[2] != "half" and s["op"] != "wait":
                feats["near-refresh-tick"] += 1
        for a, b in zip(steps, steps[1:]):
            if b.get("when", ["d"])[0] == "s" and {a["op"], b["op"]} == {"sub", "unsub"} and a.get("e") == b.get("e") and a.get("srv") == b.get("srv"):
                feats["sub+unsub-one-iteration"] += 1
        lifecycle = ("start", "stop")
        hist.drive(sim, steps, execute)
        sim.advance(3.5)
        end = sim.now
        check_idle()
        for p in list(intervals):
            close_iv(p)
        require(not sim.loop.errors, "C14.loop-error", lambda: str(sim.loop.errors[:2]))
        require(not sim.loop.task_errors(), "C14.loop-error", lambda: str(sim.loop.task_errors()[:2]))
        # ---- refresh: while a pair stays requested and the subscriber runs, Subscribes are at most one interval apart
        for (ei, si), a, b in closed:
            times = [t for t in tx[(SRV[si], _ident(ei))] if a - RES <= t <= b + RES]
            if b - a < RES:
                continue
            require(times and times[0] - a < RES, "C14.first-subscribe", lambda: f"eventgroup {EGS[ei][:4]} requested from {SRV[si]} at {a:.6f} (until {b:.6f}): first Subscribe at {times[0] if times else None}")
            if refresh is not None:
                pts = times + [b]
                for x, y in zip(pts, pts[1:]):
                    require(y - x <= refresh + RES, "C14.refresh-gap", lambda: f"eventgroup {EGS[ei][:4]} at {SRV[si]} stayed requested from {a:.6f} to {b:.6f} but Subscribes were sent at {[round(t, 6) for t in times]} (refresh interval {refresh})")
    return ok(bool(feats) and seen[0] > 0, [f"{k}={'1+' if v else 0}" for k, v in sorted(feats.items())] + [f"ttl={'inf' if ttl == INF else 'finite'}"])
