"""C11 - Every unicast Subscribe gets exactly one correct Ack or Nack."""
from __future__ import annotations

import collections

from hypothesis import strategies as st

from .. import wire
from ..engine import ok, require
from ..simkit import ADDRS, ServerRec, Sim, cfg, desc_semantic, ep_desc, install_random, make_sd, sd, sd_bytes, sent_entries, timings
from ..vloop import RES
from .c07 import ref_detect

PID = "C11"
RULE = (
    "cases = a server with 0..3 instances (concrete or wildcard instance id / major version on the service side, declared "
    "eventgroups subset of {1,2,3}, minor versions that do or do not coincide with the last word of an acknowledgement; announcer never started / started / stopped and restarted; single instances stopped; running instances in their initial-wait, non-cyclic main or cyclic main phase), "
    "and 1..5 messages of 1..6 Subscribe / StopSubscribe entries (FindService entries in between, whose answers share the send queue) built to match, nearly match (one field off, unknown "
    "eventgroup) or not match, counter 0..15, TTL from {0,1,3,0xFFFFFE,inf}, zero/one/many endpoint options plus extra "
    "options, unicast or multicast, from 2 subscribers, listener decisions drawn per call, collection timeout 0 or not; "
    "entries matched by more than one configured instance are dropped (quantifier). SubscribeAck entries are decoded "
    "independently. non-trivial = a message with >= 2 entries of different expected outcome, or a match through a "
    "wildcard, or a matching instance that is not running, or counter != 0; distinct = distinct case JSON"
)
ASSUMPTIONS = [
    "reference decision per entry: positive Ack with the requested TTL iff a running instance matches (service id equal; instance id and major equal or wildcard on the service side; eventgroup declared) and either the subscription is already recorded (refresh) or the listener accepted; else TTL 0",
    "a Nack in reply to a StopSubscribe that matches nothing is accepted but not required (the statement is silent)",
    "all messages arrive within one second and TTLs are >= 1 s, so no subscription expires inside a case",
]
BUDGET = {"quick": {"examples": 16000, "shrink": 300}, "thorough": {"examples": 480000, "shrink": 2000}}
INF = 0xFFFFFF
EPSETS = [[["10.0.0.2", 4000, 17]], [], [["2001:db8::3", 4001, 6]], [["10.0.0.2", 4000, 17], ["10.0.0.2", 4002, 17]]]


@st.composite
def _inst(draw):
    return dict(svc=draw(st.sampled_from([0x3000, 0x3000, 0x3001])), inst=draw(st.sampled_from([1, 2, 0xFFFF])), major=draw(st.sampled_from([1, 2, 0xFF])),
                egs=draw(st.lists(st.sampled_from([1, 2, 3]), max_size=3, unique=True)), stopped=draw(st.sampled_from([False, False, False, True])),
                # minor versions that coincide with the last word of an acknowledgement ((counter << 16) | eventgroup) and others
                minor=draw(st.sampled_from([0, 1, 1, 2, 3, 0x10001, 0xF0002, 7])))


@st.composite
def _entry(draw):
    if draw(st.integers(0, 6)) == 0:
        # a FindService entry between the Subscribe entries: its answer (an offer) shares the send queue with the acknowledgements
        return dict(find=True, svc=draw(st.sampled_from([0x3000, 0x3000, 0x3001])), inst=draw(st.sampled_from([1, 2, 0xFFFF, 0xFFFF])), major=draw(st.sampled_from([1, 0xFF, 0xFF])),
                    same=draw(st.booleans()))   # same: asks for the service of the Subscribe entry in front of it
    return dict(svc=draw(st.sampled_from([0x3000, 0x3000, 0x3001, 0x3002])), inst=draw(st.sampled_from([1, 1, 2, 3, 0xFFFF])), major=draw(st.sampled_from([1, 1, 2, 0xFF])),
                eg=draw(st.sampled_from([1, 1, 2, 3, 4])), counter=draw(st.sampled_from([0, 0, 1, 15])), ttl=draw(st.sampled_from([1, 3, 3, 0, 0xFFFFFE, INF])),
                eps=draw(st.integers(0, 3)), extra=draw(st.sampled_from([0, 0, 1])))


@st.composite
def _case(draw):
    msgs = []
    for _ in range(draw(st.integers(1, 5))):
        msgs.append(dict(src=draw(st.integers(0, 1)), mc=draw(st.sampled_from([False, False, False, True])), dt=draw(st.sampled_from([0, 0, 0.001, 0.02, 0.1])),
                         reset=draw(st.sampled_from([False, False, False, True])),
                         entries=draw(st.lists(_entry(), min_size=1, max_size=6))))
    insts = draw(st.lists(_inst(), max_size=3))
    # half of the entries are built from a configured instance: same service, its concrete ids, one of its eventgroups -
    # and, where the numbers allow it, eventgroup and counter such that the acknowledgement's last word equals the
    # instance's minor version; a FindService entry then asks for the instance of the entry in front of it
    for m in msgs:
        prev = None
        for e in m["entries"]:
            if e.get("find"):
                if prev is not None and e.get("same"):
                    e.update(svc=prev["svc"], inst=draw(st.sampled_from([prev["inst"], 0xFFFF])), major=draw(st.sampled_from([prev["major"], 0xFF])))
                continue
            prev = e
            if insts and draw(st.booleans()):
                i = draw(st.sampled_from(insts))
                e["svc"] = i["svc"]
                if i["inst"] != 0xFFFF:
                    e["inst"] = i["inst"]
                if i["major"] != 0xFF:
                    e["major"] = i["major"]
                if i["egs"]:
                    e["eg"] = draw(st.sampled_from(i["egs"]))
                    if (i["minor"] & 0xFFFF) in i["egs"] and (i["minor"] >> 16) < 16 and draw(st.booleans()):
                        e["eg"], e["counter"] = i["minor"] & 0xFFFF, i["minor"] >> 16
    return dict(insts=insts, state=draw(st.sampled_from(["started", "started", "started", "never", "restarted", "stopped"])),
                coll=draw(st.sampled_from([0, 0, 0.005])), msgs=msgs, dec=draw(st.lists(st.booleans(), max_size=8)),
                phase=draw(st.sampled_from(["main", "main", "initial-wait", "cyclic"])))


def strategy(tier):
    return _case()


def _matches(i, e):
    return (i["svc"] == e["svc"] and (i["inst"] in (0xFFFF, e["inst"])) and (i["major"] in (0xFF, e["major"])) and e["eg"] in i["egs"])


def run_case(case):
    insts = case["insts"][:3]
    state = case.get("state", "started")
    coll = case.get("coll", 0)
    dec = list(case.get("dec", []))
    feats = collections.Counter()
    with Sim() as sim:
        install_random([0.5])
        phase = case.get("phase", "main")
        # 'running' covers every phase of the offer lifecycle: initial wait (first offer not yet sent), repetition/main phase
        # of a non-cyclic instance (its offer task has ended), cyclic main phase
        tm = timings(SEND_COLLECTION_TIMEOUT=coll, CYCLIC_OFFER_DELAY=1 if phase == "cyclic" else 0, ANNOUNCE_TTL=INF,
                     INITIAL_DELAY_MIN=10 if phase == "initial-wait" else 0, INITIAL_DELAY_MAX=10 if phase == "initial-wait" else 0)
        prot = make_sd(sim, tm)
        log = []

        def decide(sub, source):
            return dec.pop(0) if dec else True

        objs = []
        for n, i in enumerate(insts):
            o = sd.ServiceInstance(cfg.Service(i["svc"], i["inst"], i["major"], i.get("minor", 0), eventgroups=frozenset(i["egs"])), ServerRec(sim, log, f"I{n}", decide), prot.announcer, tm)
            prot.announcer.announce_service(o)
            objs.append(o)
        running = [False] * len(insts)
        if state != "never":
            prot.announcer.start()
            running = [True] * len(insts)
            if state in ("restarted", "stopped"):
                sim.advance(0.01)
                prot.announcer.stop()
                running = [False] * len(insts)
                if state == "restarted":
                    prot.announcer.start()
                    running = [True] * len(insts)
            for n, i in enumerate(insts):
                if i.get("stopped") and running[n]:
                    objs[n].stop()
                    running[n] = False
        sim.advance(0.05)
        n0 = len(prot.transport.sent)
        stored = set()   # (subscriber, instance index, identity)
        sessions = {}
        seen_sessions = {}
        carry_exp, carry_opt, carry_t, carry_src = collections.Counter(), collections.Counter(), [], []
        msgs_ = case["msgs"]
        for mi, m in enumerate(msgs_):
            src = ADDRS[m["src"] % 2]
            mc = bool(m["mc"])
            sid = sessions[(src, mc)] = 1 if m.get("reset") else sessions.get((src, mc), 0) + 1
            rebooted = ref_detect(seen_sessions, (src, mc), True, sid)
            if rebooted:
                # the subscriber rebooted: what it had subscribed is gone (applied before the entries of this message, C06)
                for k_ in [k_ for k_ in stored if k_[0] == src]:
                    stored.discard(k_)
                feats["reboot"] += 1
            entries = [e for e in m["entries"] if e.get("find") or sum(1 for i in insts if _matches(i, e)) <= 1][:6]
            if not entries and not carry_t:
                continue
            wire_entries = []
            expected = collections.Counter()
            optional = collections.Counter()
            outcomes = set()
            log0 = len(log)
            asked_expected = 0
            dec_snapshot = list(dec)
            for e in entries:
                if e.get("find"):
                    wire_entries.append({"t": "find", "svc": e["svc"], "inst": e["inst"], "major": e["major"], "minor": 0xFFFFFFFF})
                    feats["find-in-message"] += 1
                    continue
                ttl = e["ttl"]
                eps = EPSETS[e["eps"] % len(EPSETS)]
                wire_entries.append({"t": "sub" if ttl else "stopsub", "svc": e["svc"], "inst": e["inst"], "major": e["major"], "eg": e["eg"],
                                     "counter": e["counter"], "ttl": ttl, "eps": eps, "opts": [dict(k="lb", prio=1, weight=1)] if e["extra"] else []})
                if mc:
                    continue
                ident = (e["svc"], e["inst"], e["major"], e["eg"], e["counter"], tuple(sorted(desc_semantic(ep_desc(*x)) for x in eps)))
                ack = (e["svc"], e["inst"], e["major"], e["eg"], e["counter"])
                match = [n for n, i in enumerate(insts) if _matches(i, e)]
                live = [n for n in match if running[n]]
                if match and not live:
                    feats["nonrunning-match"] += 1
                if live and (insts[live[0]]["inst"] == 0xFFFF or insts[live[0]]["major"] == 0xFF):
                    feats["wildcard-match"] += 1
                if e["counter"]:
                    feats["counter"] += 1
                if ttl == 0:
                    if live:
                        stored.discard((src, live[0], ident))
                    else:
                        optional[ack + (0,)] += 1
                    continue
                if not live:
                    expected[ack + (0,)] += 1
                    outcomes.add("nack")
                    continue
                key = (src, live[0], ident)
                if key in stored:
                    expected[ack + (ttl,)] += 1
                    outcomes.add("ack")
                    continue
                accept = dec_snapshot.pop(0) if dec_snapshot else True
                asked_expected += 1
                if accept:
                    stored.add(key)
                    expected[ack + (ttl,)] += 1
                    outcomes.add("ack")
                else:
                    expected[ack + (0,)] += 1
                    outcomes.add("nack")
            if len(outcomes) > 1:
                feats["mixed-outcomes"] += 1
            store_before = [sorted(repr(k) for k in o.subscriptions.entries()) for o in objs]
            t_arr = sim.now + m["dt"]
            if wire_entries:
                sim.do_at(t_arr, prot.datagram_received, sd_bytes(wire_entries, sid, reboot=True), src, mc)
            else:
                sim.run_until(t_arr)   # every entry of this message was excluded (matched by two instances): nothing is sent
            if carry_src and carry_src[0] != src:
                src_for_acks = carry_src[0]
            else:
                src_for_acks = src
            nxt = msgs_[mi + 1] if mi + 1 < len(msgs_) else None
            if wire_entries and coll and nxt is not None and nxt["dt"] < coll and not mc and not nxt["mc"] and ADDRS[nxt["src"] % 2] == src:
                # the next message of this subscriber arrives while the answers to this one still wait in the send
                # collector: both messages are judged together
                carry_exp.update(expected)
                carry_opt.update(optional)
                carry_t.append(t_arr)
                carry_src[:] = [src]
                feats["within-collection-window"] += 1
                continue
            expected.update(carry_exp)
            optional.update(carry_opt)
            t_first = min(carry_t + [t_arr])
            carry_exp.clear()
            carry_opt.clear()
            del carry_t[:]
            del carry_src[:]
            sim.advance(coll + 0.0005 if coll else 0.0)
            got = [e for e in sent_entries(prot.transport, n0) if e["type"] == wire.SUBSCRIBE_ACK]
            others = [e for e in sent_entries(prot.transport, n0) if e["type"] not in (wire.SUBSCRIBE_ACK, wire.OFFER)]
            got = [a for a in got if True]
            n0 = len(prot.transport.sent)
            if mc:
                require(not got, "C11.multicast-answered", lambda: f"Subscribe received over multicast was answered: {got[:2]}")
                if rebooted:
                    # reboot evidence on the multicast channel legitimately ends this subscriber's subscriptions; the
                    # Subscribe entries themselves must still do nothing
                    require(all(c[2] == "unsubscribed" and c[4] == src for c in log[log0:]), "C11.multicast-state", lambda: f"Subscribe over multicast reached the listener: {log[log0:]}")
                else:
                    require(len(log) == log0, "C11.multicast-state", lambda: f"Subscribe over multicast reached the listener: {log[log0:]}")
                    require(store_before == [sorted(repr(k) for k in o.subscriptions.entries()) for o in objs], "C11.multicast-state", "subscriptions changed by a multicast Subscribe")
                continue
            for a in got:
                require(a["dest"] == src_for_acks, "C11.ack-destination", lambda: f"SubscribeAck {a} sent to {a['dest']}, the Subscribe came from {src_for_acks}")
                require(t_first - RES <= a["t"] <= t_arr + coll + RES, "C11.ack-time", lambda: f"ack at {a['t']:.6f} for a message at {t_arr:.6f}")
            gotc = collections.Counter((a["service"], a["instance"], a["major"], a["eventgroup"], a["counter"], a["ttl"]) for a in got)
            extra = gotc - expected
            missing = expected - gotc
            for k in list(extra):
                take = min(extra[k], optional.get(k, 0))
                extra[k] -= take
            extra = +extra
            require(not missing and not extra, "C11.ack-mismatch",
                    lambda: f"message from {src} with entries {[('find', e['svc'], e['inst'], e['major']) if e.get('find') else (e['svc'], e['inst'], e['major'], e['eg'], e['counter'], e['ttl']) for e in entries]} against instances "
                            f"{[(i['svc'], i['inst'], i['major'], i.get('minor', 0), i['egs'], 'running' if r else 'not running') for i, r in zip(insts, running)]}: "
                            f"missing acks {dict(missing)}, unexpected acks {dict(extra)} (ack = service, instance, major, eventgroup, counter, ttl)")
            require(not others, "C11.other-entries", lambda: f"unexpected entries sent: {others[:2]}")
        require(not sim.loop.errors, "C11.loop-error", lambda: str(sim.loop.errors[:2]))
    nontrivial = bool(feats)
    return ok(nontrivial, [f"{k}={'1+' if v else 0}" for k, v in sorted(feats.items())] + [f"state={state}", f"instances={len(insts)}", f"phase={case.get('phase', 'main')}"])
