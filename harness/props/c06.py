"""C06 - Server subscription records are truthful; acknowledged subscriptions are held."""
from __future__ import annotations

from hypothesis import strategies as st

from .. import hist, wire
from ..engine import ok, require
from ..simkit import ServerRec, peer_addr, Sim, cfg, ep_desc, desc_semantic, make_sd, sd, sd_bytes, sent_entries, timings
from ..ttlmodel import TTLModel
from ..vloop import RES
from .c07 import ref_detect

PID = "C06"
RULE = (
    "exhaustive: every history of bounded length over {subscribe ttl 1, subscribe infinite, stop-subscribe, "
    "reboot+subscribe in one message, reboot-only message, service stop, service start, reject-next} x timing prefixes "
    "{next TTL deadline -RES/4, +RES/4, +0.5 s} for one subscriber and one eventgroup; random: Hypothesis histories of "
    "1..14 steps from 8 subscribers (3 unrelated, 5 differing from one of them only in scope id / flow label / port / host) and 'crowd' steps (5..140 further peers send one message each), 2 instances, eventgroups {1,2}, counters {0,1,15}, zero/one/two IPv4/IPv6 endpoint "
    "options (also two that differ in the transport protocol or the address family only) plus non-endpoint options, TTL from {1,2,3,0xFFFFFE,inf}, several entries per message, reboot evidence in "
    "the same or a separate message and on the multicast channel, listener decisions drawn per call, announcer "
    "stop/start, stop_announce/announce of one instance, connection loss; session counters that continue, jump far ahead, reset or repeat; instances in their initial-wait, non-cyclic main or cyclic main phase; schedule-aware timing as in C05. "
    "non-trivial = reboot evidence and a Subscribe in one message, or a rejected Subscribe, or a step within RES of a "
    "deadline, or a service stop with live subscriptions; distinct = distinct case JSON"
)
ASSUMPTIONS = [
    "subscription identity = (service, instance, major, eventgroup, counter, set of endpoint options); TTL and other options excluded (as documented in EventgroupSubscription)",
    "a subscription becomes live in the model when the listener is observed to accept it (whether the listener should have been asked is C11's question)",
    "a Subscribe within RES of the deadline of its predecessor is simultaneous: 'unsubscribed, subscribed again' and 'no notification' are both accepted",
    "API calls respect their preconditions (stop only when started etc.); connection loss enters through the protocol object",
]
BUDGET = {"quick": {"examples": 16000, "shrink": 300}, "thorough": {"examples": 640000, "shrink": 2000}}
ENUM_LEN = {"quick": 4, "thorough": 6}
EXHAUSTIVE = {"quick": "all 11^4 = 14641 histories of length 4 over the 8-event + 3-timing alphabet",
              "thorough": "all 11^6 = 1771561 histories of length 6 over the 8-event + 3-timing alphabet"}
INF = 0xFFFFFF
INSTANCES = [(0x3000, 1, 1, frozenset({1, 2})), (0x3000, 2, 1, frozenset({1}))]
EPSETS = [[["10.0.0.2", 4000, 17]], [["2001:db8::3", 4001, 17]], [["10.0.0.2", 4000, 6]], [],
          [["10.0.0.2", 4000, 17], ["10.0.0.2", 4002, 17]],
          [["10.0.0.2", 4000, 17], ["10.0.0.2", 4000, 6]],          # the same address and port over UDP and TCP
          [["10.0.0.2", 4000, 17], ["2001:db8::3", 4000, 17]]]
CROWD0 = 100

ALPHA = ["s1", "sinf", "stopsub", "rb+s", "rb", "svc-stop", "svc-start", "reject", "T-q", "T+q", "+0.5"]


def enum_size(tier):
    return len(ALPHA) ** ENUM_LEN[tier]


def enum_case(tier, idx):
    steps = []
    when = ["d", 0.01]
    decisions = []
    nasked = 0
    for _ in range(ENUM_LEN[tier]):
        idx, r = divmod(idx, len(ALPHA))
        a = ALPHA[r]
        if a in ("T-q", "T+q", "+0.5"):
            when = {"T-q": ["t", 0, "-q"], "T+q": ["t", 0, "+q"], "+0.5": ["d", 0.5]}[a]
            continue
        if a == "reject":
            steps.append({"op": "reject-next", "when": ["s"] if steps else ["d", 0.01]})
            continue
        if a in ("s1", "sinf", "stopsub", "rb+s", "rb"):
            ent = {"s1": [{"t": "sub", "ttl": 1}], "sinf": [{"t": "sub", "ttl": INF}], "stopsub": [{"t": "stopsub"}],
                   "rb+s": [{"t": "sub", "ttl": 1}], "rb": [{"t": "find"}]}[a]
            steps.append({"op": "msg", "src": 0, "mc": False, "entries": ent, "sess": "reset" if a.startswith("rb") else "next", "when": when})
        else:
            steps.append({"op": a, "when": when})
        when = ["d", 0.01]
    return {"steps": steps}


when_st = st.one_of(
    st.tuples(st.just("d"), st.sampled_from([0.0, 0.01, 0.25, 0.5, 1.0, 2.0, 3.0])).map(list),
    st.tuples(st.just("t"), st.integers(0, 2), st.sampled_from(["-4", "-q", "+q", "+4", "half"])).map(list),
    st.just(["s"]),
)


@st.composite
def _entry(draw):
    t = draw(st.sampled_from(["sub", "sub", "sub", "stopsub", "find"]))
    e = {"t": t}
    if t != "find":
        e.update(i=draw(st.integers(0, 1)), eg=draw(st.sampled_from([1, 1, 2])), counter=draw(st.sampled_from([0, 0, 1, 15])),
                 eps=draw(st.sampled_from([0, 0, 0, 1, 2, 3, 4, 5, 5, 6])), extra=draw(st.sampled_from([0, 0, 1])))
    if t == "sub":
        e["ttl"] = draw(st.sampled_from([1, 1, 2, 3, 0xFFFFFE, INF]))
    return e


@st.composite
def _step(draw):
    op = draw(st.sampled_from(["msg"] * 14 + ["svc-stop", "svc-start", "unannounce", "announce", "lost", "reject-next", "reject-next"] * 2 + ["crowd"]))
    s = {"op": op, "when": draw(when_st)}
    if op == "crowd":
        # `n` further peers send one SD message each (their next one)
        s.update(n=draw(st.sampled_from([5, 33, 70, 140])), mc=draw(st.booleans()))
    if op == "msg":
        # subscribers 0-2 are unrelated, 3-7 differ from one of them in one component of the socket address only
        s.update(src=draw(st.sampled_from([0, 1, 2, 0, 1, 2, 0, 1, 2, 3, 4, 5, 6, 7])), mc=draw(st.sampled_from([False, False, False, True])),
                 entries=draw(st.lists(_entry(), min_size=1, max_size=3)), sess=draw(st.sampled_from(["next", "next", "next", "next", "next", "next", "reset", "reset", "repeat", "repeat", "far"])))
    return s


def strategy(tier):
    # phase of the offer lifecycle the instances are in while the history runs: initial wait (first offer not yet sent),
    # main phase of a non-cyclic instance (its offer task has ended), cyclic main phase
    return st.builds(lambda steps, ph: {"steps": steps, "phase": ph}, st.lists(_step(), min_size=1, max_size=14),
                     st.sampled_from(["main", "main", "initial-wait", "cyclic"]))


def fixed_cases(tier):
    m = lambda ent, sess="next", when=None, mc=False: {"op": "msg", "src": 0, "mc": mc, "sess": sess, "entries": ent, "when": when or ["d", 0.1]}  # noqa: E731
    sub = lambda ttl: [{"t": "sub", "ttl": ttl}]  # noqa: E731
    return [
        {"steps": [m(sub(INF)), m(sub(INF), "reset")]},                      # D2: reboot + Subscribe in one message
        {"steps": [m(sub(1)), m(sub(INF), "reset")]},
        {"steps": [m(sub(1)), m(sub(1), when=["t", 0, "-q"])]},               # D1: subscribe in the iteration of the expiry
        {"steps": [m(sub(INF)), {"op": "svc-stop", "when": ["d", 0.1]}, {"op": "svc-start", "when": ["s"]}, m(sub(INF), when=["s"])]},  # D1
        {"steps": [m([{"t": "find"}], mc=True), m(sub(INF)), m([{"t": "find"}], "reset", mc=True)]},  # reboot seen on the multicast channel
        {"steps": [{"op": "reject-next", "when": ["d", 0.01]}, m(sub(1)), m(sub(INF), when=["d", 0.5]), {"op": "noop", "when": ["d", 1.0]}]},  # orphan timer of a rejected subscribe
        {"steps": [m(sub(2)), m(sub(INF), when=["d", 1.0]), {"op": "noop", "when": ["d", 2.0]}]},  # finite -> infinite refresh
    ]


def _identity(inst, e):
    svc, iid, major, _ = INSTANCES[inst % len(INSTANCES)]
    eps = EPSETS[e.get("eps", 0) % len(EPSETS)]
    return (svc, iid, major, e.get("eg", 1), e.get("counter", 0), tuple(sorted(desc_semantic(ep_desc(*x)) for x in eps)))


def run_case(case):
    steps = case["steps"]
    log = []
    feats = {"rb_sub": False, "rejected": False, "near": False, "stop_live": False}
    with Sim() as sim:
        phase = case.get("phase", "main")
        tm = timings(CYCLIC_OFFER_DELAY=1e7 if phase == "cyclic" else 0, ANNOUNCE_TTL=INF, SEND_COLLECTION_TIMEOUT=0,
                     INITIAL_DELAY_MIN=1e7 if phase == "initial-wait" else 0, INITIAL_DELAY_MAX=1e7 if phase == "initial-wait" else 0)
        prot = make_sd(sim, tm)
        reject = [0]

        def decide(sub, source):
            if reject[0] > 0:
                reject[0] -= 1
                return False
            return True

        insts = []
        for n, (svc, iid, major, egs) in enumerate(INSTANCES):
            insts.append(sd.ServiceInstance(cfg.Service(svc, iid, major, 0, eventgroups=egs), ServerRec(sim, log, f"I{n}", decide), prot.announcer, tm))
        announced = [True, True]
        for i in insts:
            prot.announcer.announce_service(i)
        prot.announcer.start()
        started = [True]
        sim.advance(0.05)

        sessions = {}
        sess = {}
        model = TTLModel("C06", {"subscribed": True, "rejected": False}, optional_new=True,
                         clauses={"missing": "C06.stale-subscribed", "unexplained-expired": "C06.liveness",
                                  "unexplained-new": "C06.unexplained-subscribed", "time": "C06.expiry-time"})
        live = model.live
        latest = {}
        seen = [0]
        sent_seen = [len(prot.transport.sent)]
        events = []   # model events of the current group, in step order
        group_events = []
        calls = model.calls

        def scan():
            # (1) alternation; a rejected call does not count and is never followed by 'unsubscribed'
            for t, name, kind, key, src, ttl in log[seen[0]:]:
                p = (src, key)
                model.record(t, "expired" if kind == "unsubscribed" else kind, p)
                prev = latest.get(p)
                if kind == "rejected":
                    feats["rejected"] = True
                    require(prev != "subscribed", "C06.alternation", lambda: f"listener asked about {key} from {src} at t={t:.6f} while it is recorded as subscribed; calls {calls(p)}")
                    latest[p] = "rejected"
                elif kind == "subscribed":
                    require(prev != "subscribed", "C06.alternation", lambda: f"'subscribed' twice in a row for {key} from {src} at t={t:.6f}; calls {calls(p)}")
                    latest[p] = "subscribed"
                else:
                    require(prev == "subscribed", "C06.rejected-then-unsubscribed" if prev == "rejected" else "C06.alternation",
                            lambda: f"'unsubscribed' for {key} from {src} at t={t:.6f} after {prev!r}; calls {calls(p)}")
                    latest[p] = "unsubscribed"
            seen[0] = len(log)

        def check_idle():
            now = sim.now
            scan()
            model.explain(events, now)
            group_events.extend(events)
            del events[:]
            for p in model.live:
                require(latest.get(p) == "subscribed", "C06.liveness", lambda: f"{p} live in the model but latest is {latest.get(p)!r}")
            for p, kind in latest.items():
                require(kind != "subscribed" or p in model.live, "C06.stale-subscribed", lambda: f"{p} latest 'subscribed' but not live in the model")

        def execute(i, s):
            op = s["op"]
            now = sim.now
            if op == "crowd":
                mc = bool(s.get("mc"))
                for k_ in range(max(0, min(300, int(s.get("n", 0))))):
                    src = peer_addr(CROWD0 + k_)
                    flag, sid = sess.get((src, mc), (True, 0))
                    flag, sid = (flag, sid + 1) if sid < 0xFFFF else (False, 1)
                    sess[(src, mc)] = (flag, sid)
                    ref_detect(sessions, (src, mc), flag, sid)
                    prot.datagram_received(sd_bytes([{"t": "find", "svc": 0x7777}], sid, reboot=flag), src, mc)
            elif op == "msg":
                src = peer_addr(s["src"] % 8)
                mc = bool(s["mc"])
                k = (src, mc)
                flag, sid = sess.get(k, (True, 0))
                if s.get("sess") == "reset":
                    flag, sid = True, 1
                elif s.get("sess") == "repeat" and sid >= 1:
                    pass
                elif s.get("sess") == "far" and sid < 0x6000:
                    sid += 0x9000    # the peer has sent many messages we did not see (ids need only increase)
                else:
                    flag, sid = (flag, sid + 1) if sid < 0xFFFF else (False, 1)
                sess[k] = (flag, sid)
                reboot = ref_detect(sessions, k, flag, sid)
                if reboot:
                    events.append(("end", lambda q, _s=src: q[0] == _s, "reboot of the subscriber"))
                wire_entries = []
                for e in s["entries"]:
                    if e["t"] == "find":
                        wire_entries.append({"t": "find", "svc": 0x7777})
                        continue
                    inst = e.get("i", 0) % len(INSTANCES)
                    svc, iid, major, _ = INSTANCES[inst]
                    ttl = max(1, min(INF, e.get("ttl", 1))) if e["t"] == "sub" else 0
                    opts = [dict(k="lb", prio=1, weight=1)] if e.get("extra") else []
                    wire_entries.append({"t": e["t"], "svc": svc, "inst": iid, "major": major, "eg": e.get("eg", 1), "counter": e.get("counter", 0),
                                         "ttl": ttl, "eps": EPSETS[e.get("eps", 0) % len(EPSETS)], "opts": opts})
                    if mc:
                        continue
                    p = (src, _identity(inst, e))
                    if e["t"] == "sub":
                        if reboot:
                            feats["rb_sub"] = True
                        events.append(("add", p, None if ttl == INF else now + ttl, now))
                    else:
                        events.append(("end", lambda q, _p=p: q == _p, "StopSubscribe"))
                prot.datagram_received(sd_bytes(wire_entries, sid, reboot=flag), src, mc)
            elif op == "reject-next":
                reject[0] += 1
            elif op in ("svc-stop", "lost"):
                if op == "svc-stop" and not started[0]:
                    return
                if model.live:
                    feats["stop_live"] = True
                if started[0]:
                    for n, a in enumerate(announced):
                        if a:
                            events.append(("end", lambda q, _i=INSTANCES[n][1]: q[1][1] == _i, "service stop"))
                started[0] = False
                if op == "lost":
                    prot.connection_lost(None)
                else:
                    prot.announcer.stop()
            elif op == "svc-start":
                if started[0]:
                    return
                started[0] = True
                prot.announcer.start()
            elif op == "unannounce":
                if not announced[1]:
                    return
                announced[1] = False
                if started[0]:
                    if any(p[1][1] == INSTANCES[1][1] for p in model.live):
                        feats["stop_live"] = True
                    events.append(("end", lambda q, _i=INSTANCES[1][1]: q[1][1] == _i, "service stop"))
                prot.announcer.stop_announce_service(insts[1])
            elif op == "announce":
                if announced[1]:
                    return
                announced[1] = True
                prot.announcer.announce_service(insts[1])

        def after_group(i0, i1):
            # (3) acknowledged => held, unless something later in the same group legitimately ended it again
            acks = [e for e in sent_entries(prot.transport, sent_seen[0]) if e["type"] == wire.SUBSCRIBE_ACK and e["ttl"] > 0]
            sent_seen[0] = len(prot.transport.sent)
            evs = list(group_events)
            del group_events[:]
            lifecycle_in_group = any(steps[k]["op"] in ("svc-stop", "lost", "unannounce") for k in range(i0, i1))
            for a in acks:
                ident = (a["service"], a["instance"], a["major"], a["eventgroup"], a["counter"])
                pairs = [ev[1] for ev in evs if ev[0] == "add" and ev[1][0] == a["dest"] and ev[1][1][:5] == ident]
                ended_after = False
                for p in set(pairs):
                    last_add = max(n for n, ev in enumerate(evs) if ev[0] == "add" and ev[1] == p)
                    if any(ev[0] == "end" and ev[1](p) for ev in evs[last_add + 1:]):
                        ended_after = True
                if ended_after or lifecycle_in_group:
                    continue
                require(any(p[0] == a["dest"] and p[1][:5] == ident for p in model.live), "C06.acknowledged-not-held",
                        lambda: f"positive SubscribeAck {ident} ttl={a['ttl']} sent to {a['dest']} at t={a['t']:.6f}, but no such subscription is recorded at the next idle point (t={sim.now:.6f})")

        sim.idle_hooks.append(check_idle)
        for s in steps:
            w = s.get("when", ["d", 0.01])
            if w[0] == "t" and w[2] in ("-q", "+q"):
                feats["near"] = True
        # a lifecycle call may not follow a datagram inside one iteration (the datagram's handling is deferred past it:
        # the order is ambiguous, DESIGN 2.2); it may precede one
        lifecycle = ("svc-stop", "svc-start", "unannounce", "announce")
        hist.drive(sim, steps, execute, after_group, barrier=lambda st_: st_["op"] == "lost",
                   splitter=lambda grp, st_: st_["op"] in lifecycle and any(g["op"] == "msg" for g in grp))
        sim.advance(3.5)
        sim.advance(1.0)
        check_idle()
        require(not sim.loop.errors, "C06.loop-error", lambda: str(sim.loop.errors[:2]))
        require(not sim.loop.task_errors(), "C06.loop-error", lambda: str(sim.loop.task_errors()[:2]))
    nontrivial = (feats["rb_sub"] or feats["rejected"] or feats["near"] or feats["stop_live"]) and bool(log)
    return ok(nontrivial, [f"rb+sub={int(feats['rb_sub'])}", f"rejected={int(feats['rejected'])}", f"near-deadline={int(feats['near'])}",
                           f"stop-with-live={int(feats['stop_live'])}", f"calls={'0' if not log else '1+'}"])
