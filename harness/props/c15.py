"""C15 - Queued SD entries are sent exactly once, in order, to the right peer, in time."""
from __future__ import annotations

from hypothesis import strategies as st

from .. import hist, wire
from ..engine import ok, require
from ..simkit import ADDRS, MCAST, HarnessError, ServerRec, Sim, cfg, decode_sent_sd, hdr, install_random, make_sd, sd, timings
from ..vloop import RES

PID = "C15"
RULE = (
    "exhaustive: every sequence of bounded length over {queue for multicast / for a peer / with the ids of the previous entry, burst of 17, announcer stop, start} x timing prefixes relative to the collector timer; random: cases = sequences of queue_send requests with uniquely tagged entries (offer, stop-offer, subscribe-ack, nack) for "
    "the multicast group and up to 3 unicast peers, bursts of up to 300 entries, steps timed by delays or relative to the "
    "pending collector timers (-4RES, -RES/4, +RES/4, +4RES, halfway) or inside one iteration; collection timeout from "
    "{0, 0.005, 0.05}; reboot notifications for the unicast peers in between; optionally two running instances whose own offers share the queues and an announcer.stop()/start() "
    "in the middle; all queue_send calls (the library's own included) are seen through a record-and-forward wrapper and "
    "all datagrams are decoded independently. non-trivial = >= 2 destinations with open collectors, or a request within "
    "4 RES of a window closing, or a burst > 15; distinct = distinct case JSON"
)
ASSUMPTIONS = [
    "'queued' = a call of ServiceAnnouncer.queue_send (observed by wrapping the bound method on the instance, forwarding unchanged)",
    "send time - queue time must lie in [0, timeout] (slack RES)",
]
BUDGET = {"quick": {"examples": 8000, "shrink": 300}, "thorough": {"examples": 480000, "shrink": 2000}}
DESTS = [None] + ADDRS + [("2001:db8::3", 30490, 0, 7)]   # the last one differs from ADDRS[1] in its scope id only

when_st = st.one_of(
    st.tuples(st.just("d"), st.sampled_from([0.0, 0.001, 0.004, 0.005, 0.006, 0.02, 0.05, 0.3])).map(list),
    st.tuples(st.just("t"), st.integers(0, 3), st.sampled_from(["-4", "-q", "+q", "+4", "half"])).map(list),
    st.tuples(st.just("t"), st.integers(0, 3), st.sampled_from(["-q", "+q"])).map(list),
    st.just(["s"]),
)


@st.composite
def _step(draw):
    op = draw(st.sampled_from(["q"] * 8 + ["burst", "stop", "start", "reboot"]))
    s = {"op": op, "when": draw(when_st)}
    if op == "reboot":
        s["d"] = draw(st.integers(1, 4))   # the announcer is told that this unicast peer rebooted (what the protocol object does on reboot evidence)
    if op in ("q", "burst"):
        s["d"] = draw(st.integers(0, 4))
        s["kind"] = draw(st.sampled_from(["offer", "stop", "ack", "nack"]))
        s["re"] = draw(st.sampled_from([False, False, True]))   # same ids as the previous entry of that family (offer/stop, ack/nack)
        if op == "burst":
            s["n"] = draw(st.sampled_from([2, 3, 16, 17, 40, 40, 86, 100, 300]))
    return s


def strategy(tier):
    return st.builds(lambda coll, inst, steps: {"coll": coll, "inst": inst, "steps": steps}, st.sampled_from([0, 0.005, 0.005, 0.05]),
                     st.booleans(), st.lists(_step(), min_size=1, max_size=14))


ALPHA = ["q0", "q1", "q0same", "burst0", "stop", "start", "T-q", "T+q", "+0.003"]
ENUM_LEN = {"quick": 5, "thorough": 6}
EXHAUSTIVE = {"quick": "all 9^5 = 59049 sequences of length 5 over {queue for multicast, queue for a peer, queue an entry with the ids of the previous one, burst of 17, announcer stop, start} x timing prefixes {collector timer -RES/4, +RES/4, +3 ms}, collection timeout 5 ms, two announced instances",
              "thorough": "all 9^6 = 531441 sequences of length 6 over the same alphabet"}


def enum_size(tier):
    return len(ALPHA) ** ENUM_LEN[tier]


def enum_case(tier, idx):
    steps = []
    when = ["d", 0.001]
    for _ in range(ENUM_LEN[tier]):
        idx, r = divmod(idx, len(ALPHA))
        a = ALPHA[r]
        if a in ("T-q", "T+q", "+0.003"):
            when = {"T-q": ["t", 0, "-q"], "T+q": ["t", 0, "+q"], "+0.003": ["d", 0.003]}[a]
            continue
        if a in ("stop", "start"):
            steps.append({"op": a, "when": when})
        elif a == "burst0":
            steps.append({"op": "burst", "n": 17, "d": 0, "kind": "stop", "when": when})
        else:
            steps.append({"op": "q", "d": 1 if a == "q1" else 0, "kind": "stop" if a == "q0same" else "offer", "re": a == "q0same", "when": when})
        when = ["d", 0.001]
    return {"coll": 0.005, "inst": True, "steps": steps}


def fixed_cases(tier):
    out = []
    for coll in (0, 0.005, 0.05):
        out.append({"coll": coll, "inst": True, "steps": [{"op": "start", "when": ["d", 0.01]}, {"op": "q", "d": 1, "kind": "ack", "when": ["d", 0.2]},
                                                           {"op": "q", "d": 2, "kind": "offer", "when": ["s"]}, {"op": "stop", "when": ["d", 0.002]},
                                                           {"op": "q", "d": 1, "kind": "nack", "when": ["s"]}]})
        for off in ("-4", "-q", "+q", "+4"):
            out.append({"coll": coll, "inst": False, "steps": [{"op": "q", "d": 0, "kind": "offer", "when": ["d", 0.01]}, {"op": "q", "d": 1, "kind": "ack", "when": ["d", 0.001]},
                                                               {"op": "q", "d": 0, "kind": "offer", "when": ["t", 0, off]}, {"op": "q", "d": 1, "kind": "ack", "when": ["t", 0, off]},
                                                               {"op": "burst", "n": 40, "d": 0, "kind": "stop", "when": ["s"]}]})
    return out


def _ident_lib(e):
    return (int(e.sd_type), e.service_id, e.instance_id, e.major_version, e.ttl, e.minver_or_counter)


def _ident_wire(e):
    last = e["minor"] if "minor" in e else (e["counter"] << 16) | e["eventgroup"]
    return (e["type"], e["service"], e["instance"], e["major"], e["ttl"], last)


def run_case(case):
    coll = case.get("coll", 0)
    coll = coll if coll in (0, 0.005, 0.05) else 0.005
    steps = case["steps"]
    feats = {"near": False, "burst": False, "multi": False}
    with Sim() as sim:
        install_random([0.5])
        tm = timings(SEND_COLLECTION_TIMEOUT=coll, INITIAL_DELAY_MAX=0.01, REPETITIONS_MAX=2, REPETITIONS_BASE_DELAY=0.004, CYCLIC_OFFER_DELAY=0.03, ANNOUNCE_TTL=3)
        prot = make_sd(sim, tm)
        ann = prot.announcer
        queued = []
        orig = ann.queue_send

        def rec(entry, remote=None):
            queued.append((sim.now, _ident_lib(entry), remote))
            if len([1 for q in ann.send_queues.values() if not q.done]) >= 1 and remote not in ann.send_queues:
                feats["multi"] = True
            return orig(entry, remote=remote)

        ann.queue_send = rec
        if case.get("inst"):
            for iid in (1, 2):
                ann.announce_service(sd.ServiceInstance(cfg.Service(0xEE00, iid, 1, 0), ServerRec(sim, [], "I"), ann, tm))
        started = [False]
        tag = [0]
        last_kind = {}
        T = hdr.SOMEIPSDEntryType

        def entry(kind, reuse=False):
            # entries are told apart by their ids; with reuse the ids of the previous entry are kept, so that e.g. an offer
            # and the StopOffer of the same service, or an Ack and a Nack of the same subscription, share a collector
            # (they still differ in TTL; two entries that are fully identical are avoided)
            if not (reuse and tag[0] and last_kind.get("k") != kind):
                tag[0] += 1
            last_kind["k"] = kind
            if kind in ("offer", "stop"):
                return hdr.SOMEIPSDEntry(sd_type=T.OfferService, service_id=tag[0], instance_id=1, major_version=1, ttl=3 if kind == "offer" else 0, minver_or_counter=tag[0])
            return hdr.SOMEIPSDEntry(sd_type=T.SubscribeAck, service_id=0x2000, instance_id=1, major_version=1, ttl=5 if kind == "ack" else 0, minver_or_counter=tag[0] & 0xFFFF)

        def execute(k, s):
            op = s["op"]
            if op == "q":
                ann.queue_send(entry(s.get("kind", "offer"), s.get("re", False)), remote=DESTS[s.get("d", 0) % len(DESTS)])
            elif op == "burst":
                nn = max(1, min(400, s.get("n", 2)))
                if nn > 15:
                    feats["burst"] = True
                for _ in range(nn):
                    ann.queue_send(entry(s.get("kind", "offer")), remote=DESTS[s.get("d", 0) % len(DESTS)])
            elif op == "reboot":
                d_ = DESTS[s.get("d", 1) % len(DESTS)]
                if d_ is not None:
                    ann.reboot_detected(d_)
            elif op == "start":
                if not started[0]:
                    started[0] = True
                    ann.start()
            elif op == "stop":
                started[0] = False
                ann.stop()

        for s in steps:
            w = s.get("when", ["d", 0.01])
            if w[0] == "t" and w[2] in ("-q", "+q", "-4", "+4") and s["op"] in ("q", "burst"):
                feats["near"] = True
        hist.drive(sim, steps, execute)
        if started[0]:
            ann.stop()
        sim.advance(0.2)
        require(not sim.loop.errors, "C15.loop-error", lambda: str(sim.loop.errors[:2]))
        require(not sim.loop.task_errors(), "C15.loop-error", lambda: str(sim.loop.task_errors()[:2]))

        if not queued and prot.transport.sent:
            raise HarnessError("entries were transmitted but the wrapped ServiceAnnouncer.queue_send was never called: the observation point of this check is gone")
        # ---- what left the transport
        per_dest_sent = {}
        ndatagrams = 0
        for rec_ in prot.transport.sent:
            msgs = decode_sent_sd(rec_)
            require(len(msgs) == 1, "C15.datagram-format", lambda: f"{len(msgs)} SD messages in one datagram")
            t, dest, f, sdm = msgs[0]
            ndatagrams += 1
            ents = [_ident_wire(e) for e in sdm["entries"]]
            require(ents, "C15.empty-message", "an SD message without entries was sent")
            per_dest_sent.setdefault(dest, []).append((t, ents))
            if coll == 0:
                require(len(ents) == 1, "C15.zero-timeout-batched", lambda: f"collection timeout 0 but a message carries {len(ents)} entries")
        per_dest_q = {}
        for t, ident, remote in queued:
            per_dest_q.setdefault(MCAST if remote is None else remote, []).append((t, ident))
        for dest in set(per_dest_q) | set(per_dest_sent):
            q = per_dest_q.get(dest, [])
            flat = [(t, e) for t, ents in per_dest_sent.get(dest, []) for e in ents]
            require([e for _, e in flat] == [e for _, e in q], "C15.sequence",
                    lambda: _seqdiff(dest, [e for _, e in q], [e for _, e in flat]))
            for (tq, e), (ts, _) in zip(q, flat):
                require(-RES < ts - tq <= coll + RES, "C15.latency",
                        lambda: f"entry {e} queued for {dest} at {tq:.6f} left at {ts:.6f}: {ts - tq:.6f}s later, collection timeout {coll}")
                if coll == 0:
                    require(abs(ts - tq) < RES, "C15.zero-timeout-delayed", lambda: f"timeout 0: entry queued at {tq:.6f} sent at {ts:.6f}")
    nontrivial = (feats["near"] or feats["burst"] or feats["multi"]) and bool(queued)
    return ok(nontrivial, [f"timeout={coll}", f"near-window={int(feats['near'])}", f"burst>15={int(feats['burst'])}", f"multi-dest={int(feats['multi'])}",
                           f"instances={int(bool(case.get('inst')))}"])


def _seqdiff(dest, q, s):
    missing = [e for e in q if e not in s]
    extra = [e for e in s if e not in q]
    dup = sorted(set(e for e in s if s.count(e) > 1))
    return (f"destination {dest}: {len(q)} entries queued, {len(s)} sent; never sent {missing[:3]}; sent but not queued for this destination {extra[:3]}; "
            f"sent twice {dup[:3]}; order equal: {[e for e in s if e in q] == [e for e in q if e in s]}")
