"""C03 - Malformed or foreign input is rejected cleanly and changes nothing."""
from __future__ import annotations

from hypothesis import strategies as st

from .. import strategies as S
from .. import wire
from ..engine import ok, require
from ..simkit import (ADDRS, ClientRec, FakeTransport, deep_state, ServerRec, Sessions, Sim, cfg, hdr, install_random, make_sd,
                      sd, sd_bytes, service, timings)
from . import c01

PID = "C03"
RULE = (
    "cases = (decode) arbitrary byte strings and, mainly, SD payloads/messages from the independent (also non-canonical) "
    "encoder subjected to a mutation script (bit flips, byte sets, truncation, insertion, duplication, targeted rewrites "
    "of every length/count/index/type field, the options array cut at an exact option boundary, non-ASCII bytes inside configuration strings, strings that start with '='), handed to every decoder "
    "(SOME/IP message from a datagram and from a byte stream, SD message, SD entry, SD option, every registered parse_option); (live) the same byte strings "
    "delivered as datagrams, unicast and multicast, at generated positions into a running discovery endpoint with "
    "watched/found services, an announced instance with subscriptions and a pending auto-subscription, and into a "
    "SimpleService endpoint: twin runs with the junk and with only its accepted projection must give identical "
    "listener/transmission traces and state. non-trivial = mutated bytes that still reach the SD payload decoder, or "
    "a rejected datagram delivered while the endpoint holds state; distinct = distinct case JSON"
)
ASSUMPTIONS = [
    "permitted decoder outcomes: (value, true suffix of the input), ParseError (incl. IncompleteReadError), or UnicodeDecodeError only when an independent walk of the same bytes finds a byte >= 0x80 inside a configuration string",
    "a message is 'rejected' iff its SOME/IP header does not decode (independent decoder), or it is not an SD notification (service/method/interface version/type/return code), or the library's SD decoder raises one of the two permitted errors on its payload",
    "exceptions that the library itself logs and swallows inside its own tasks (log_exceptions) are not counted as escaping",
]
BUDGET = {"quick": {"examples": 12000, "shrink": 250}, "thorough": {"examples": 300000, "shrink": 1500, "extra_shards": 16}}
FUZZ_RUNS = {"quick": 0, "thorough": 400000}


# --------------------------------------------------------------------------- generators
junk_bytes = st.one_of(
    st.builds(lambda b: {"kind": "arb", "hex": b.hex()}, st.binary(max_size=96)),
    st.builds(lambda d, m, h: {"kind": "sd", "sd": d, "mut": m, "hdr": h}, S.raw_sd(), S.mutation_script(3),
              st.sampled_from([None, None, None, "svc", "meth", "iv", "mt", "rc", "pv", "len-", "len+"])),
    st.builds(lambda d, m: {"kind": "sd", "sd": d, "mut": m, "hdr": None}, S.raw_sd(noncanon=False), S.mutation_script(2)),
)

ENT = st.sampled_from([
    {"t": "offer", "svc": 0x1000, "inst": 1, "major": 1, "ttl": 3},
    {"t": "offer", "svc": 0x1000, "inst": 2, "major": 1, "ttl": 0xFFFFFF},
    {"t": "offer", "svc": 0x2000, "inst": 1, "major": 1, "ttl": 2, "eps": [["10.0.0.2", 3000, 17]]},
    {"t": "stop", "svc": 0x1000, "inst": 1, "major": 1},
    {"t": "find", "svc": 0x3000, "inst": 0xFFFF, "major": 0xFF},
    {"t": "sub", "svc": 0x3000, "inst": 1, "major": 1, "eg": 1, "ttl": 3, "eps": [["10.0.0.2", 4000, 17]]},
    {"t": "sub", "svc": 0x3000, "inst": 1, "major": 1, "eg": 1, "ttl": 0xFFFFFF, "counter": 1, "eps": [["2001:db8::3", 4000, 17]]},
    {"t": "stopsub", "svc": 0x3000, "inst": 1, "major": 1, "eg": 1, "eps": [["10.0.0.2", 4000, 17]]},
    {"t": "sub", "svc": 0x3000, "inst": 1, "major": 1, "eg": 9, "ttl": 3, "eps": [["10.0.0.2", 4000, 17]]},
    {"t": "ack", "svc": 0x2000, "inst": 1, "major": 1, "eg": 1, "ttl": 3},
])


@st.composite
def _live(draw):
    hist = []
    for _ in range(draw(st.integers(1, 6))):
        hist.append({"dt": draw(st.sampled_from([0, 0.001, 0.3, 1.0, 2.5])), "from": draw(st.integers(0, 2)),
                     "mc": draw(st.booleans()), "entries": draw(st.lists(ENT, min_size=1, max_size=3)),
                     "reset": draw(st.integers(0, 5)) == 0})
    junk = []
    for _ in range(draw(st.integers(1, 3))):
        j = {"pos": draw(st.integers(0, len(hist))), "dt": draw(st.sampled_from([0, 0, 0.001, 0.5])),
             "from": draw(st.integers(0, 2)), "mc": draw(st.booleans())}
        if draw(st.integers(0, 4)) == 0:
            j["bytes"] = {"kind": "nounicast", "entries": draw(st.lists(ENT, min_size=1, max_size=3)), "sess": draw(st.sampled_from(["next", "reset"]))}
        else:
            j["bytes"] = draw(junk_bytes)
            j["n"] = draw(st.sampled_from([1, 1, 1, 2]))
            j["glue"] = draw(st.sampled_from([False, False, True]))   # prefixed to the next valid message, in the same datagram
        junk.append(j)
    return {"kind": "live", "hist": hist, "junk": junk, "tail": draw(st.sampled_from([0.5, 4.0])),
            "timeout": draw(st.sampled_from([0, 0.005]))}


def strategy(tier):
    return st.one_of(st.builds(lambda j: {"kind": "decode", "bytes": j}, junk_bytes), _live(), _live())


def fixed_cases(tier):
    out = []
    # configuration strings of every length 1..255 through every decoder
    for d in S.cfg_length_sweep():
        out.append({"kind": "decode", "bytes": {"kind": "sd", "hdr": None, "mut": [], "sd": {"flags": 0xC0, "options": [{"desc": d}],
                    "entries": [dict(type=1, service=1, instance=1, major=1, ttl=3, minor=0, idx1=0, n1=1, idx2=0, n2=0)]}}})
    # the design-time finding D8: a non-ASCII byte inside a configuration string
    cfgopt = {"desc": {"k": "cfg", "items": [["abc", "d"]]}}
    sdd = {"flags": 0xC0, "options": [cfgopt], "entries": [dict(type=1, service=0x1000, instance=1, major=1, ttl=3, minor=0, idx1=0, n1=1, idx2=0, n2=0)]}
    for pos in range(3):
        out.append({"kind": "live", "tail": 0.5, "timeout": 0, "hist": [{"dt": 0.1, "from": 0, "mc": False, "entries": [{"t": "offer", "svc": 0x1000, "inst": 1, "major": 1, "ttl": 3}], "reset": False}],
                    "junk": [{"pos": 1, "dt": 0, "from": 0, "mc": bool(pos % 2), "n": 1,
                              "bytes": {"kind": "sd", "sd": sdd, "mut": [["nonascii", pos, 0xC3]], "hdr": None}}]})
    return out


# --------------------------------------------------------------------------- bytes
def _someip_wrap(payload, hdr_mut, session=7):
    f = dict(service=0xFFFF, method=0x8100, client=0, session=session, iface=1, mtype=2, rcode=0, proto=1, length=None)
    if hdr_mut == "svc":
        f["service"] = 0xFFFE
    elif hdr_mut == "meth":
        f["method"] = 0x8101
    elif hdr_mut == "iv":
        f["iface"] = 2
    elif hdr_mut == "mt":
        f["mtype"] = 0
    elif hdr_mut == "rc":
        f["rcode"] = 1
    elif hdr_mut == "pv":
        f["proto"] = 2
    elif hdr_mut == "len-":
        f["length"] = max(0, len(payload) + 8 - 3)
    elif hdr_mut == "len+":
        f["length"] = len(payload) + 8 + 5
    return wire.encode_someip(f["service"], f["method"], f["client"], f["session"], f["iface"], f["mtype"], f["rcode"],
                              payload, proto=f["proto"], length=f["length"])


def junk_datagram(spec, session=7):
    """-> (datagram bytes, sd payload bytes or None, field offsets)"""
    if spec["kind"] == "arb":
        return bytes.fromhex(spec["hex"]), None, []
    payload, fields = S.raw_sd_bytes(spec["sd"])
    payload = S.apply_mutations(payload, fields, spec.get("mut", []))
    return _someip_wrap(payload, spec.get("hdr"), session), payload, fields


def cfg_nonascii_in_option(body):
    """body = bytes after the type byte of a configuration option"""
    pos = 1
    while pos < len(body):
        ln = body[pos]
        if ln == 0:
            return False
        s = body[pos + 1 : pos + 1 + ln]
        if any(c >= 0x80 for c in s):
            return True
        pos += 1 + ln
    return False


def nonascii_in_options(obuf):
    pos = 0
    while pos + 3 <= len(obuf):
        ln = int.from_bytes(obuf[pos : pos + 2], "big")
        if obuf[pos + 2] == wire.OPT_CONFIG and cfg_nonascii_in_option(obuf[pos + 3 : pos + 3 + ln]):
            return True
        pos += 3 + ln
    return False


def nonascii_in_sd(payload):
    if len(payload) < 12:
        return False
    elen = int.from_bytes(payload[4:8], "big")
    start = 8 + elen + 4
    if start > len(payload):
        return False
    olen = int.from_bytes(payload[8 + elen : 12 + elen], "big")
    return nonascii_in_options(payload[start : start + olen])


def _total(call, data, what, unicode_ok):
    """the decoder outcome contract"""
    try:
        r = call()
    except hdr.ParseError:
        return "ParseError", None
    except UnicodeDecodeError as e:
        require(unicode_ok, "C03.decoder-exception", lambda: f"{what}: UnicodeDecodeError without a non-ASCII configuration string: {e}; input {bytes(data)[:64].hex()}")
        return "Unicode", None
    except Exception as e:  # noqa: BLE001
        require(False, "C03.decoder-exception", f"{what}: {type(e).__name__}: {e}; input {bytes(data)[:64].hex()} (len {len(data)})")
    return "accepted", r


def _suffix(data, rest, what):
    rest = bytes(rest)
    require(len(rest) <= len(data) and bytes(data[len(data) - len(rest):]) == rest, "C03.rest-not-suffix",
            lambda: f"{what}: rest {rest[:32].hex()} is not a suffix of the input {bytes(data)[:64].hex()}")


def _outcome(buf):
    try:
        v, rest = hdr.SOMEIPSDHeader.parse(buf)
    except Exception as e:  # noqa: BLE001 - which exceptions are permitted is checked by _total
        return type(e).__name__
    return ("accepted", repr(v), len(rest))


def run_decode(spec):
    data, payload, fields = junk_datagram(spec)
    labels = []
    if spec["kind"] == "sd" and spec.get("mut"):
        # the outcome is a function of the byte string: the same bytes decode alike before and after the message they
        # were derived from (a corrupted retransmission follows its original) has been decoded
        first = _outcome(payload)
        _outcome(S.raw_sd_bytes(spec["sd"])[0])
        again = _outcome(payload)
        require(first == again, "C03.decoder-not-a-function",
                lambda: f"the same SD payload decoded differently before and after its unmutated original was decoded: {str(first)[:200]} / {str(again)[:200]}; payload {bytes(payload)[:80].hex()} (len {len(payload)})")
    out, r = _total(lambda: hdr.SOMEIPHeader.parse(data), data, "SOMEIPHeader.parse", False)
    if r is not None:
        require(isinstance(r[0], hdr.SOMEIPHeader), "C03.decoder-type", "SOMEIPHeader.parse")
        _suffix(data, r[1], "SOMEIPHeader.parse")
    labels.append(f"someip={out}")
    bufs = [("datagram", data)]
    if payload is not None:
        bufs.append(("payload", payload))
    reached = False
    for name, buf in bufs:
        out, r = _total(lambda: hdr.SOMEIPSDHeader.parse(buf), buf, "SOMEIPSDHeader.parse", nonascii_in_sd(buf))
        if name == "payload":
            labels.append(f"sd={out}")
            reached = True
        if r is not None:
            require(isinstance(r[0], hdr.SOMEIPSDHeader), "C03.decoder-type", "SOMEIPSDHeader.parse")
            _suffix(buf, r[1], "SOMEIPSDHeader.parse")
            r[0].resolve_options()
        # entries / options at every field start and at a few arbitrary offsets
        offs = sorted(set([0, 1, 8, 12] + [f[0] for f in fields if f[2] in ("etype", "olen")]))
        for off in offs:
            if off > len(buf):
                continue
            sub = buf[off:]
            for n in (0, 3, 255):
                out2, r2 = _total(lambda: hdr.SOMEIPSDEntry.parse(sub, n), sub, "SOMEIPSDEntry.parse", False)
                if r2 is not None:
                    _suffix(sub, r2[1], "SOMEIPSDEntry.parse")
            first_is_cfg_nonascii = len(sub) >= 3 and sub[2] == wire.OPT_CONFIG and cfg_nonascii_in_option(sub[3 : 3 + int.from_bytes(sub[0:2], "big")])
            out3, r3 = _total(lambda: hdr.SOMEIPSDOption.parse(sub), sub, "SOMEIPSDOption.parse", first_is_cfg_nonascii)
            if r3 is not None:
                require(isinstance(r3[0], hdr.SOMEIPSDOption), "C03.decoder-type", "SOMEIPSDOption.parse")
                _suffix(sub, r3[1], "SOMEIPSDOption.parse")
            body = sub[3:40]
            for t, cls in sorted(hdr.SOMEIPSDOption._options.items()):
                for b in (body, body[:5], body[:9], body[:21], body[:2]):
                    _total(lambda: cls.parse_option(b), b, f"{cls.__name__}.parse_option",
                           t == wire.OPT_CONFIG and cfg_nonascii_in_option(b))
    # the stream decoder (SOMEIPHeader.read / SOMEIPReader.read) on the same bytes, fed whole and in two chunks
    for api in (0, 1):
        for cut in (None, min(len(data), 9)):
            out4 = _stream(data, api, cut)
            if api == 0 and cut is None:
                labels.append(f"stream={out4}")
    mutated = bool(spec.get("mut")) or spec["kind"] == "arb"
    return ok(mutated and (reached or spec["kind"] == "arb"), ["kind=decode"] + labels)


def _stream(data, api, cut):
    """reads messages from a byte stream until it ends; permitted: messages, then ParseError / an incomplete-read error / None"""
    import asyncio
    res = []
    with Sim() as sim:
        reader = asyncio.StreamReader()
        wrapped = hdr.SOMEIPReader(reader)

        async def consume():
            for _ in range(64):
                try:
                    m = await (wrapped.read() if api else hdr.SOMEIPHeader.read(reader))
                except hdr.ParseError:      # IncompleteReadError is a ParseError
                    return "ParseError"
                except asyncio.IncompleteReadError:
                    return "incomplete"
                if m is None:
                    return "none"
                require(isinstance(m, hdr.SOMEIPHeader), "C03.decoder-type", "stream reader")
            return "many"

        task = asyncio.ensure_future(consume())
        if cut:
            reader.feed_data(bytes(data[:cut]))
            sim.settle()
            reader.feed_data(bytes(data[cut:]))
        elif data:
            reader.feed_data(bytes(data))
        reader.feed_eof()
        sim.settle()
        require(task.done(), "C03.decoder-hangs", lambda: f"stream reader still pending after end of stream; input {bytes(data)[:64].hex()}")
        if task.exception() is not None:
            e = task.exception()
            require(False, "C03.decoder-exception", f"stream reader (api {api}): {type(e).__name__}: {e}; input {bytes(data)[:64].hex()} (len {len(data)})")
        res.append(task.result())
    return res[0]


# --------------------------------------------------------------------------- live
class _Svc(service.SimpleService):
    service_id = 0x3000
    version_major = 1
    version_minor = 0


def classify(datagram):
    """-> (list of accepted message byte strings with cleared-unicast messages reduced to their header, n_rejected)"""
    kept = []
    rejected = 0
    buf = datagram
    while buf:
        try:
            f, rest = wire.decode_someip(buf)
        except wire.WireError:
            rejected += 1
            break
        msg = buf[: len(buf) - len(rest)]
        buf = rest
        is_sd = (f["service"], f["method"], f["iface"], f["mtype"], f["rcode"]) == (0xFFFF, 0x8100, 1, 2, 0)
        if not is_sd:
            rejected += 1
            continue
        try:
            sdh, _ = hdr.SOMEIPSDHeader.parse(f["payload"])
        except (hdr.ParseError, UnicodeDecodeError):
            rejected += 1
            continue
        if not (f["payload"][0] & 0x40):
            # entries of a message without the unicast flag are ignored: equivalent to the same message without entries
            kept.append(wire.encode_someip(0xFFFF, 0x8100, f["client"], f["session"], 1, 2, 0, wire.encode_sd(f["payload"][0], b"", b"")))
            rejected += 1
            continue
        kept.append(msg)
    return kept, rejected


def _play(case, with_junk):
    log = []
    sends = []
    info = {"rejected": 0, "junk_delivered": 0, "state_when_junk": False}
    with Sim() as sim:
        install_random([0.5])
        tm = timings(SEND_COLLECTION_TIMEOUT=case.get("timeout", 0), CYCLIC_OFFER_DELAY=1, ANNOUNCE_TTL=3,
                     SUBSCRIBE_TTL=5, SUBSCRIBE_REFRESH_INTERVAL=3, REPETITIONS_MAX=1, REQUEST_RESPONSE_DELAY_MAX=0.02)
        prot = make_sd(sim, tm, on_send=lambda t, d, b: sends.append((round(t, 9), d, b)))
        inst = sd.ServiceInstance(cfg.Service(0x3000, 1, 1, 0, eventgroups=frozenset({1, 2})), ServerRec(sim, log, "srv"), prot.announcer, tm)
        prot.announcer.announce_service(inst)
        prot.discovery.watch_all_services(ClientRec(sim, log, "all"))
        prot.discovery.watch_service(cfg.Service(0x1000), ClientRec(sim, log, "w1000"))
        prot.discovery.find_subscribe_eventgroup(cfg.Eventgroup(0x2000, 0xFFFF, 0xFF, 1, ("10.0.0.1", 5000), hdr.L4Protocols.UDP))
        prot.start()
        svc = _Svc(1)
        svc.transport = FakeTransport(sim, ("10.0.0.1", 30500))  # the service endpoint is only required not to raise
        svc.register_method(1, lambda m, a: b"ok")
        svc.register_eventgroup(service.SimpleEventgroup(svc, 1))
        sim.advance(0.05)
        sess = Sessions()

        def deliver(data, a, mc):
            for target, name in ((prot, "sd"), (svc, "service")):
                try:
                    target.datagram_received(data, a, mc)
                except Exception as e:  # noqa: BLE001
                    require(False, "C03.receive-raises", f"{name} endpoint datagram_received raised {type(e).__name__}: {e}; datagram {bytes(data)[:80].hex()} (len {len(data)}) multicast={mc}")

        def state():
            # everything reachable from the protocol object (discovery, subscription, session state, timer deadlines),
            # whatever the library calls it
            return repr(deep_state(prot))

        junk_at = {}
        for j in case["junk"]:
            junk_at.setdefault(min(j["pos"], len(case["hist"])), []).append(j)

        glued = {}

        def do_junk(pos):
            for j in junk_at.get(pos, []):
                if j.get("glue") and pos < len(case["hist"]) and j["bytes"]["kind"] != "nounicast":
                    glued[pos] = glued.get(pos, b"") + junk_datagram(j["bytes"])[0] * max(1, j.get("n", 1))
                    continue
                a = ADDRS[j["from"] % len(ADDRS)]
                spec = j["bytes"]
                if spec["kind"] == "nounicast":
                    if spec.get("sess") == "reset":
                        sess.reset((a, j["mc"]))
                    flag, n = sess.next((a, j["mc"]))
                    data = sd_bytes(spec["entries"], n, reboot=flag, unicast=False)
                else:
                    data = junk_datagram(spec)[0] * max(1, j.get("n", 1))
                kept, rej = classify(data)
                info["rejected"] += rej
                sim.advance(j.get("dt", 0))
                if with_junk:
                    info["junk_delivered"] += 1
                    pure = not kept
                    before = (state(), len(log), len(sends)) if pure else None
                    if log:
                        info["state_when_junk"] = True
                    sim.do_at(sim.now, deliver, data, a, j["mc"])
                    if pure:
                        after = (state(), len(log), len(sends))
                        require(before == after, "C03.rejected-changes-state",
                                lambda: f"a datagram of rejected messages only changed state/trace: before {before} after {after}; datagram {data[:80].hex()}")
                else:
                    if kept:
                        sim.do_at(sim.now, deliver, b"".join(kept), a, j["mc"])

        do_junk(0)
        for n, h in enumerate(case["hist"]):
            a = ADDRS[h["from"] % len(ADDRS)]
            if h.get("reset"):
                sess.reset((a, h["mc"]))
            flag, sid = sess.next((a, h["mc"]))
            data = sd_bytes(h["entries"], sid, reboot=flag)
            if n in glued:
                # several messages in one datagram: rejected ones in front must not keep the valid one from being delivered
                whole = glued[n] + data
                kept, rej = classify(whole)
                info["rejected"] += rej
                info["junk_delivered"] += 1
                if log:
                    info["state_when_junk"] = True
                data = whole if with_junk else b"".join(kept)
            if data:
                sim.do_at(sim.now + h["dt"], deliver, data, a, h["mc"])
            else:
                sim.advance(h["dt"])
            do_junk(n + 1)
        sim.advance(case.get("tail", 0.5))
        final = state()
        require(not sim.loop.errors, "C03.deferred-error", lambda: f"exception reached the event loop's handler: {sim.loop.errors[:2]}")
        require(not sim.loop.task_errors(), "C03.deferred-error", lambda: f"task failed: {sim.loop.task_errors()[:2]}")
    return log, sends, final, info


def run_live(case):
    la, sa, fa, ia = _play(case, True)
    lb, sb, fb, ib = _play(case, False)
    # compared per stream (listener x record, destination): the relative order of two independent timers that fall
    # on the very same virtual instant is a heap tie inside asyncio, not something the statement fixes
    require(_streams(la, lambda x: (x[1], x[3], x[4])) == _streams(lb, lambda x: (x[1], x[3], x[4])), "C03.trace-differs",
            lambda: _first_diff("listener calls", la, lb))
    require(_streams(sa, lambda x: x[1]) == _streams(sb, lambda x: x[1]), "C03.transmissions-differ", lambda: _first_diff("transmissions", sa, sb))
    require(fa == fb, "C03.state-differs", lambda: f"final state with junk {fa} without {fb}")
    nontrivial = ia["rejected"] > 0 and ia["state_when_junk"]
    return ok(nontrivial, ["kind=live", f"rejected={'0' if not ia['rejected'] else '1+'}", f"state-when-junk={int(ia['state_when_junk'])}",
                           f"listener-calls={'0' if not la else '1+'}"])


def _streams(seq, key):
    out = {}
    for x in seq:
        out.setdefault(key(x), []).append(x)
    return out


def _first_diff(what, a, b):
    for i, (x, y) in enumerate(zip(a, b)):
        if x != y:
            return f"{what} differ at #{i}: with the rejected input {str(x)[:300]} / without {str(y)[:300]}"
    return f"{what}: {len(a)} with the rejected input, {len(b)} without; extra: {str((a[len(b):] or b[len(a):])[:2])[:400]}"


def run_case(case):
    if case.get("kind") == "live":
        return run_live(case)
    if case.get("kind") == "raw":   # an input found by the coverage-guided campaign
        return run_decode({"kind": "arb", "hex": case["hex"]})
    return run_decode(case["bytes"])


def extra(tier, seed, shard, st):
    import sys
    from ..fuzz import campaign
    campaign.run_shard(sys.modules[__name__], tier, seed, shard, st, runs=FUZZ_RUNS[tier], with_corpus=shard % 2 == 0)
