"""runs one atheris shard as a subprocess and feeds what it found back into the engine's statistics"""
from __future__ import annotations

import glob
import os
import re
import shutil
import subprocess
import sys
import tempfile

from .. import engine, wire


def available():
    try:
        import atheris  # noqa: F401
        return True
    except Exception:  # noqa: BLE001
        return False


def seed_corpus(d):
    """a few small valid inputs: SOME/IP messages carrying SD payloads with every option kind"""
    b = wire.SDBuilder()
    b.add(wire.OFFER, 0x1000, 1, 1, 3, minor=0, run1=[dict(k="ip", type=4, addr="10.0.0.1", proto=17, port=30501)],
          run2=[dict(k="cfg", items=[["a", "b"], ["c", None]])])
    b.add(wire.SUBSCRIBE, 0x1000, 1, 1, 3, counter=1, eventgroup=5, run1=[dict(k="ip", type=6, addr="2001:db8::1", proto=6, port=1)])
    b.add(wire.FIND, 0x2000, 0xFFFF, 0xFF, 3, minor=0xFFFFFFFF, run1=[dict(k="lb", prio=1, weight=2), dict(k="unk", type=0x77, data="00aabb")])
    samples = [b.datagram(7), wire.encode_sd(0xC0, b.entries, b.options), b.options, b.entries,
               wire.encode_someip(0x1234, 0x8001, 1, 2, 3, 0, 0, b"payload") * 2]
    for n, s in enumerate(samples):
        with open(os.path.join(d, f"seed{n}"), "wb") as f:
            f.write(s)


def run_shard(mod, tier, seed, shard, st, runs, with_corpus):
    """-> adds evidence keys to st.extra and any failing inputs to st (as 'raw' cases)"""
    if not available():
        st.extra["atheris"] = "not installed: coverage-guided part skipped"
        return
    work = tempfile.mkdtemp(prefix="verif-fuzz-")
    try:
        corpus = os.path.join(work, "corpus")
        os.makedirs(corpus)
        if with_corpus:
            seed_corpus(corpus)
        art = os.path.join(work, "art") + os.sep
        os.makedirs(art)
        cmd = [sys.executable, "-m", "harness.fuzz.target", "--prop", mod.PID, f"-runs={runs}", f"-seed={seed * 100 + shard + 1}",
               "-max_len=2048", f"-artifact_prefix={art}", "-print_final_stats=1", corpus]
        env = dict(os.environ)
        p = subprocess.run(cmd, cwd=engine.ROOT, env=env, capture_output=True, text=True, timeout=3600)
        out = p.stderr + p.stdout
        m = re.search(r"stat::number_of_executed_units:\s*(\d+)", out)
        execs = int(m.group(1)) if m else 0
        st.extra["atheris_executions"] = st.extra.get("atheris_executions", 0) + execs
        st.extra["atheris_shards"] = st.extra.get("atheris_shards", 0) + 1
        found = sorted(glob.glob(art + "*"))
        for path in found[:5]:
            with open(path, "rb") as f:
                data = f.read()
            case = {"kind": "raw", "hex": data.hex()}
            st.add(case, engine.run_guarded(mod, case))
        if p.returncode != 0 and not found:
            st.errors.append({"case": None, "error": "atheris shard failed without an artifact:\n" + out[-1500:]})
    finally:
        shutil.rmtree(work, ignore_errors=True)
