"""atheris (libFuzzer) target with the semantic oracles of C01 / C03 / C20 inside the target.

usage: python -m harness.fuzz.target --prop C03 [libFuzzer args] corpus_dir
The verdict functions are the same pure run_case functions the Hypothesis tiers use (case kind "raw"), so a
crashing input saved by libFuzzer becomes a replay file by wrapping its bytes into a case.
"""
import sys

import atheris

with atheris.instrument_imports(include=["someip"]):
    from harness import simkit  # noqa: F401  (imports the library under test from $VERIF_REPO/src)

from harness import engine  # noqa: E402


def main():
    argv = list(sys.argv)
    pid = "C03"
    if "--prop" in argv:
        i = argv.index("--prop")
        pid = argv[i + 1]
        del argv[i : i + 2]
    mod = engine.load_prop(pid)

    def one(data):
        r = mod.run_case({"kind": "raw", "hex": bytes(data).hex()})
        if r.get("ok") is False:
            raise AssertionError(f"{r['clause']}: {r['detail']}")

    def guarded(data):
        try:
            one(data)
        except engine.Violation as v:
            raise AssertionError(f"{v.clause}: {v.detail}")

    atheris.Setup(argv, guarded)
    atheris.Fuzz()


if __name__ == "__main__":
    main()
