#!/bin/bash
# regenerate every evidence file with the default seed (quick tier) and validate manifest + evidence
cd "$(dirname "$0")/.." || exit 2
unset VERIF_SEED VERIF_TIER VERIF_OUT VERIF_REPO
rc=0
for i in $(seq -w 1 20); do
  out=$(./run check C$i --tier quick 2>&1); r=$?
  echo "C$i rc=$r $(echo "$out" | head -1 | cut -c1-110)"
  [ $r -ne 0 ] && { rc=1; echo "$out" | grep -E "VIOLATION|HARNESS|clause=" | head -5; }
done
python3-vt tools/validate.py || rc=1
exit $rc
