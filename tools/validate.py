#!/usr/bin/env python3
"""validate MANIFEST.json and evidence/*.json against the schemas (run with python3-vt)"""
import glob, json, sys
import jsonschema
ok = True
jsonschema.validate(json.load(open('/verif/MANIFEST.json')), json.load(open('/root/.vp/MANIFEST.schema.json')))
es = json.load(open('/root/.vp/EVIDENCE.schema.json'))
for p in sorted(glob.glob('/verif/evidence/*.json')):
    try:
        jsonschema.validate(json.load(open(p)), es)
    except Exception as e:
        ok = False; print(p, 'INVALID', str(e)[:300])
print('valid' if ok else 'INVALID')
sys.exit(0 if ok else 1)
