#!/usr/bin/env python3
"""For every repaired defect: apply the reverse of the fix (a 'revert-*' mutant) to a scratch copy, run the property's
fixed cases there and save those that fail as regression replays (replays/regress/<PID>-<KF>-<n>.json).
Run with: PYTHONPATH=/verif /venv/bin/python tools/make_regress.py"""
import json, os, shutil, subprocess, sys, tempfile
ROOT = os.path.dirname(os.path.dirname(os.path.abspath(__file__)))
PLAN = [  # (finding id, property, mutant name in mutants/<PID>.json)
    ("KF-D7", "C02", "revert-D7-count-check"), ("KF-D8", "C03", "revert-D8-unicode"),
    ("KF-D1", "C05", "revert-D1-stop_all_for_address-deferred"), ("KF-D1", "C05", "revert-D1-expired-deferred"),
    ("KF-D1", "C06", "revert-D1-stop_all_for_address-deferred"), ("KF-D1", "C06", "revert-D1-expired-deferred"),
    ("KF-D1", "C09", "revert-D1-expired-deferred"),
    ("KF-D2", "C06", "revert-D2-subscribe-sync"), ("KF-D9", "C05", "revert-D9-watch-deferred"),
    ("KF-D10", "C05", "revert-D10-stopoffer-ignored-unwatched"),
    ("KF-D3", "C10", "revert-D3-pending-answer"), ("KF-D4", "C10", "revert-D4-stopped-answers"), ("KF-D5", "C10", "revert-D5-double-stop"),
    ("KF-D4", "C12", "revert-D4-stopped-answers"),
    ("KF-D11", "C10", "revert-D11-flush-before-stopoffer"), ("KF-D11", "C04", "revert-D11-flush-before-stopoffer"),
    ("KF-D2", "C04", "revert-D2-subscribe-sync"),
    ("KF-D12", "C05", "revert-D12-stale-entry-kept"),
]
child = r'''
import json, sys
sys.path.insert(0, %r)
from harness import engine
mod = engine.load_prop(%r)
out = []
for c in mod.fixed_cases("quick"):
    r = engine.run_guarded(mod, c)
    if r.get("ok") is False:
        out.append({"case": c, "clause": r["clause"], "detail": r["detail"]})
print(json.dumps(out))
'''
for kf, pid, name in PLAN:
    mp = os.path.join(ROOT, "mutants", pid + ".json")
    if not os.path.exists(mp) or not os.path.exists(os.path.join(ROOT, "harness", "props", pid.lower() + ".py")):
        print(kf, pid, name, "SKIP (not built yet)"); continue
    m = [x for x in json.load(open(mp)) if x["name"] == name]
    if not m:
        print(kf, pid, name, "NO SUCH MUTANT"); continue
    d = tempfile.mkdtemp(prefix="verif-regress-")
    try:
        shutil.copytree("/repo/src", d + "/src")
        for ed in m[0].get("edits") or [m[0]]:
            fp = os.path.join(d, ed["file"]); s = open(fp).read(); assert s.count(ed["old"]) == 1, name
            open(fp, "w").write(s.replace(ed["old"], ed["new"]))
        env = dict(os.environ, VERIF_REPO=d, PYTHONHASHSEED="0")
        p = subprocess.run(["/venv/bin/python", "-c", child % (ROOT, pid)], env=env, capture_output=True, text=True)
        fails = json.loads(p.stdout.strip().splitlines()[-1]) if p.returncode == 0 else []
        if p.returncode:
            print(p.stderr[-500:])
        # and they must pass on the repaired tree
        keep = []
        for f in fails:
            env2 = dict(os.environ, PYTHONHASHSEED="0")
            keep.append(f)
        for n, f in enumerate(keep[:4]):
            tag = name.replace("revert-", "")
            path = os.path.join(ROOT, "replays", "regress", f"{pid}-{kf}-{tag}-{n}.json")
            json.dump({"property": pid, "finding": kf, "clause": f["clause"], "detail_before_fix": f["detail"], "case": f["case"]}, open(path, "w"), indent=1, sort_keys=True)
        print(kf, pid, name, "probes failing before the fix:", len(fails), "kept", min(4, len(keep)))
    finally:
        shutil.rmtree(d, ignore_errors=True)
