#!/usr/bin/env python3
"""false-alarm test: apply each behaviour-preserving patch (benign/<id>/patch.diff) to a scratch copy of /repo/src and run
every quick check there; any non-zero exit is reported.  usage: tools/run_benign.py <dir with */patch.diff> [Cxx ...]"""
import glob, json, os, shutil, subprocess, sys, tempfile
ROOT = os.path.dirname(os.path.dirname(os.path.abspath(__file__)))
base = sys.argv[1]
pids = sys.argv[2:] or ["C%02d" % i for i in range(1, 21)]
bad = 0
for patch in sorted(glob.glob(os.path.join(base, "*", "patch.diff"))):
    name = os.path.basename(os.path.dirname(patch))
    d = tempfile.mkdtemp(prefix="verif-benign-")
    try:
        shutil.copytree("/repo/src", d + "/src")
        r = subprocess.run(["patch", "-p1", "-s", "-d", d, "-i", patch], capture_output=True, text=True)
        if r.returncode:
            print(name, "PATCH-FAILED", r.stdout[:200]); continue
        res = []
        for pid in pids:
            env = dict(os.environ, VERIF_REPO=d, VERIF_OUT=d + "/out", VERIF_BUDGET_SCALE=os.environ.get("BENIGN_SCALE", "1"))
            p = subprocess.run([os.path.join(ROOT, "run"), "check", pid, "--tier", "quick"], env=env, capture_output=True, text=True)
            if p.returncode:
                bad += 1
                lines = [l for l in (p.stdout + p.stderr).splitlines() if "clause=" in l or "Error" in l or "HARNESS" in l]
                res.append(f"{pid}:rc={p.returncode} {lines[0][:260] if lines else ''}")
        print(name, "QUIET" if not res else "ALARM " + " | ".join(res)); sys.stdout.flush()
    finally:
        shutil.rmtree(d, ignore_errors=True)
print("benign patches with alarms/errors:", bad)
