#!/usr/bin/env python3
"""fill seeded/<id>/meta.json (caught_by, what it needs) from a ./run selftest log"""
import json, os, re, sys
ROOT = os.path.dirname(os.path.dirname(os.path.abspath(__file__)))
log = open(sys.argv[1]).read().splitlines()
for line in log:
    m = re.match(r"(C\d+) seeded/(\S+): (\w[\w-]*) ?(?:clause=(\S+))?", line)
    if not m:
        continue
    pid, sid, verdict, clause = m.groups()
    mp = os.path.join(ROOT, "seeded", sid, "meta.json")
    if not os.path.exists(mp):
        continue
    md = json.load(open(mp))
    notes = os.path.join(ROOT, "seeded", sid, "notes.md")
    if os.path.exists(notes):
        txt = open(notes).read()
        mm = re.search(r"(?is)(needs|to manifest|manifest)[^\n]*\n(.{0,700})", txt)
        md["needs_to_manifest"] = (mm.group(0) if mm else txt[:600]).strip()[:900]
    md["caught_by"] = {"check": f"./run check {pid} --tier quick", "verdict": verdict, "clause": clause, "how": "./run selftest applies patch.diff to a scratch copy of /repo/src and runs the quick check with VERIF_REPO pointing there"}
    json.dump(md, open(mp, "w"), indent=1)
    print(sid, verdict, clause)
