"""per-property manifest texts; properties not yet built are listed under NOT_APPLICABLE
with the reason 'not built yet' until their check exists"""
CHECKS = {
    "C01": dict(
        technique="property-based testing: round-trip + layout differential against an independent codec (Hypothesis + exhaustive enum of type/return-code pairs)",
        text="Generated SOME/IP messages and datagrams: build() compared byte-for-byte with an independent encoder, parse(build+suffix) round trip, accept/reject and field differential against an independent decoder on corrupted headers, and in-order delivery of concatenated messages through datagram_received. Sampled search (all type x return-code pairs exhaustively), not a proof.",
        note="Trusted: harness/wire.py (independent codec), CPython struct. Fields are generated inside their wire widths only.",
    ),
}
ALL = ["C%02d" % i for i in range(1, 21)]
NOT_APPLICABLE = {p: "check not built yet in this revision (in progress); the technique applies" for p in ALL if p not in CHECKS}
