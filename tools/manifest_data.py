"""per-property manifest texts; properties not yet built are listed under NOT_APPLICABLE
with the reason 'not built yet' until their check exists"""
CHECKS = {
    "C01": dict(
        technique="property-based testing: round-trip + layout differential against an independent codec (Hypothesis + exhaustive enum of type/return-code pairs); thorough tier adds a coverage-guided atheris campaign with the same oracle in the target",
        text="Generated SOME/IP messages and datagrams: build() compared byte-for-byte with an independent encoder, parse(build+suffix) round trip, accept/reject and field differential against an independent decoder on corrupted headers, and in-order delivery of concatenated messages through datagram_received of a plain SOME/IP endpoint and of a discovery endpoint (with undecodable SD payloads and foreign messages in between). Sampled search (all type x return-code pairs exhaustively), not a proof.",
        note="Trusted: harness/wire.py (independent codec), CPython struct. Fields are generated inside their wire widths only.",
    ),
    "C07": dict(
        technique="property-based testing: exhaustive closure of the (sender, channel) session-state space against a reference rule + Hypothesis sequences through real SD datagrams with counting forwarders on the reboot hooks",
        text="Every (model state, input message) pair over the boundary alphabet is executed on a fresh session store and compared with a reference rule written from the statement (exhaustive for that alphabet); random longer sequences on the store and as real datagrams check the exactly-once fan-out to discovery, subscriber and announcer, with rejected datagrams, empty entry lists, cleared unicast flag and same-iteration bursts.",
        note="Trusted: reference rule, virtual loop (CPython's own scheduling code), wire.py. Session id 0 is outside the domain.",
    ),
    "C08": dict(
        technique="property-based testing: model-based check of per-destination counters on generated send histories (Hypothesis) + exhaustive walk of one destination's full 2 x 65535 cycle",
        text="Generated histories of SD sends (multicast group and up to 3 unicast peers, empty sends interleaved, counts crossing the wrap at different moments) and of notification traffic of a SimpleService to up to 3 subscribers; every transmitted datagram is decoded independently and compared with the reference numbering and reboot-flag rule. One destination is walked through two complete cycles.",
        note="Trusted: reference numbering rule, virtual loop, byte offsets of session id / flags. Thread interleavings of assign_outgoing are not explored.",
    ),
    "C19": dict(
        technique="property-based testing: exhaustive enumeration of the two-values-plus-wildcard domain against a reference matcher and algebraic laws + Hypothesis full-range values",
        text="All 34992 combinations of two descriptions over {2 concrete values, wildcard} per field, eventgroup sets and ids are checked against a reference matcher written from the statement and against the laws (symmetry, wildcard monotonicity, find/offer duality, conversion round trips, for_service); random full-range values and wildcard neighbours on top.",
        note="Trusted: reference matcher. The representativeness of the small domain rests on the code comparing fields only for equality with each other and the wildcard constants (the random tier probes this).",
    ),
    "C02": dict(
        technique="property-based testing: encode/decode round trip + independent-decoder differential + either-error-or-faithful oracle on generated SD messages (Hypothesis), fixed boundary cases (runs of 15/16/17/31/255, 255/256/270 shared options)",
        text="Generated SD messages with shared, overlapping, partially overlapping, suffix and tail runs over pools of up to 310 distinct options go through the send_sd pipeline (assign_option_indexes + build); the bytes are decoded by the independent codec and by the library and every entry must come back with exactly its own runs; unrepresentable messages must raise; representable ones must not; identical runs must be shared.",
        note="Trusted: harness/wire.py. 'Error' = any exception from assign_option_indexes()/build(). The 4-bit counter is generated in range only.",
    ),
    "C18": dict(
        technique="property-based testing: differential stream-reader vs datagram-decoder under generated segmentations (Hypothesis) + exhaustive single/double cut positions for short streams",
        text="Generated message streams (with corrupted header fields and truncation) are fed to an asyncio.StreamReader in generated chunkings while SOMEIPHeader.read / SOMEIPReader.read run concurrently on the virtual loop; results are compared message by message and at the terminating condition with repeated SOMEIPHeader.parse on the concatenation. All single and double cut positions are enumerated for four short streams.",
        note="Trusted: virtual loop, asyncio.StreamReader. The datagram decoder is the reference named by the statement (C01 ties it to the independent codec).",
    ),
    "C20": dict(
        technique="property-based testing: decode-encode-decode idempotence with field-wise comparison through an independent decoder, inputs from a non-canonical independent encoder plus mutation scripts (Hypothesis), all 256 option type bytes and all 65536 message-type x return-code bytes enumerated; thorough tier adds a coverage-guided atheris campaign",
        text="Every accepted input (SOME/IP message, SD message, SD entry, SD option) produced by a legal-but-non-canonical independent encoder and by mutating its output is decoded, re-encoded and decoded again; values must be equal with nothing left over, SOME/IP bytes identical, and kept information (unknown options, flags, protocol numbers, unreferenced options, raw indexes/counts) is compared through the independent decoder; the resolved path must not lose options.",
        note="Trusted: harness/wire.py. Rejected inputs are out of scope (C03).",
    ),
    "C03": dict(
        technique="property-based testing / structured fuzzing: mutation scripts over independently encoded messages into every decoder (totality + exception-type contract) and metamorphic twin runs of a live endpoint with and without the rejected input; thorough tier adds a coverage-guided atheris campaign on the decoders",
        text="Arbitrary bytes and mutated (also non-canonical) SOME/IP/SD messages are handed to every decoder (outcome must be value+true suffix, ParseError, or UnicodeDecodeError only with a non-ASCII configuration string found by an independent walk); the same bytes are delivered, unicast and multicast, into a running discovery endpoint holding discovery/subscription/session state and into a SimpleService endpoint: the call must return, nothing may reach the loop's exception handler, a datagram of rejected messages only must leave a structural fingerprint of everything reachable from the protocol object and all traces untouched, and twin runs (with the junk / with only its accepted projection, unicast-flag-clear messages reduced to their header) must be observationally identical.",
        note="Trusted: harness/wire.py (SOME/IP header classification), virtual loop. Exceptions the library logs and swallows inside its own tasks are not counted as escaping. The atheris campaign of the thorough tier is coverage-guided and only approximately reproducible.",
    ),
    "C05": dict(
        technique="model-based property testing of histories on a deterministic virtual-time event loop: bounded-exhaustive enumeration over a small alphabet + Hypothesis histories with schedule-aware timing, reference model of live offers",
        text="Histories of real SD datagrams (offers, stop-offers, reboot evidence in the same or separate messages, both channels, several sources) and watch/unwatch/connection-loss calls are executed against the unmodified library on a virtual-time loop, with steps placed relative to pending TTL timers (same iteration before/after, one iteration earlier/later); at every idle point the recorded listener calls are compared with a reference model: strict alternation, offered only if live, offered whenever a live offer arrived during the registration, stops before offers of a reboot-revealing message. All histories up to a bounded length over an 11-letter alphabet are enumerated.",
        note="Trusted: virtual loop (CPython's _run_once with a replaced clock/selector), wire.py, the reference model. Step order decides 'arrived while registered'; both outcomes are accepted where the statement is silent.",
    ),
    "C06": dict(
        technique="model-based property testing of histories on a deterministic virtual-time event loop: bounded-exhaustive enumeration + Hypothesis histories with schedule-aware timing, per-subscription reference model consuming the listener call log, independent decoding of SubscribeAck entries",
        text="Histories of Subscribe/StopSubscribe datagrams (several entries per message, reboot evidence in the same message or on the other channel, listener decisions drawn per call), announcer stop/start, (un)announce and connection loss are executed on a virtual-time loop; at every idle point each listener call must have a cause in the history and each model event its call (alternation, no unsubscribe after a rejection, live exactly from acceptance to TTL/Stop/reboot/service stop), and every positive SubscribeAck on the wire must refer to a subscription still recorded.",
        note="Trusted: virtual loop, wire.py, reference model. A Subscribe within RES of its predecessor's deadline is simultaneous (both outcomes accepted). API calls respect their preconditions.",
    ),
    "C09": dict(
        technique="model-based property testing on a deterministic virtual-time event loop: bounded-exhaustive enumeration + Hypothesis histories with timer-relative step placement, reference deadline model explaining every callback (small DFS where two outcomes are allowed)",
        text="Histories of add/refresh/stop/remove-all/re-add with TTLs from {1,2,3,0xFFFFFE,infinite} are executed on TimedStore directly, as offer datagrams through ServiceDiscover and as Subscribe datagrams through ServiceInstance, with refreshes placed at -4RES, -RES/4, +RES/4, +4RES and halfway around the pending expiry, and the clock then run past 0xFFFFFF s; every expiry/stop notification must be predicted by the reference model (exactly one, within RES of last-refresh+ttl, none after removal, none for infinite entries, none from a predecessor's timer).",
        note="Trusted: virtual loop, reference model. Refresh within RES of the deadline: both outcomes accepted, as the statement says.",
    ),
    "C10": dict(
        technique="model-based property testing on a deterministic virtual-time event loop: Hypothesis timing configurations and lifecycle scripts with timer-relative step placement, reference offer schedule checked reactively, deterministic phase x offset sweep and API probes",
        text="Generated timing configurations and scripts of start / stop (also twice) / announce / stop_announce / connection loss / FindService datagrams, each step placed relative to the library's pending timers, run against 1..3 instances; through a record-and-forward wrapper of queue_send and independent decoding of all datagrams the check compares the first offer with the drawn initial delay (and the window the library asked the RNG for), every gap with the repetition/cyclic schedule, offer contents, exactly-one StopOffer per stop after having offered, none before the first offer of a cyclic instance, and no non-zero-TTL offer to anyone while stopped - including delayed FindService answers. The helper path SimpleService.start_announce/stop_announce runs against a real announcer (open finding KF-D6).",
        note="Trusted: virtual loop, wire.py, the reference schedule. 'Has offered' = first offer queued. start() only on a stopped announcer.",
    ),
    "C11": dict(
        technique="property-based testing: reference decision per Subscribe entry (reference matcher + model of recorded subscriptions + drawn listener decisions) against independently decoded SubscribeAck multisets, Hypothesis over server configurations, lifecycle phases and multi-entry messages",
        text="Generated servers (0..3 instances, wildcard ids on the service side, never started / started / restarted / single instances stopped, initial-wait / non-cyclic / cyclic phase) receive generated messages of 1..6 Subscribe/StopSubscribe entries (matching, nearly matching, not matching; counters, TTLs, endpoint sets), unicast and multicast; per message the multiset of SubscribeAck entries leaving the transport must equal the reference multiset (echoed ids and counter, requested TTL or 0, sender only), nothing else may be sent, multicast Subscribes change nothing.",
        note="Trusted: reference matcher, wire.py, virtual loop. Entries matched by more than one configured instance are excluded (quantifier). A Nack for a StopSubscribe that matches nothing is accepted but not required.",
    ),
    "C12": dict(
        technique="model-based property testing on a deterministic virtual-time event loop: Hypothesis timing configurations and lifecycle scripts with FindService datagrams placed relative to pending timers, reference responder set (reference matcher x lifecycle model) and due times from the stubbed RNG",
        text="FindService datagrams over every wildcard combination and near-miss arrive, unicast or multicast, at generated instants of the offer lifecycle of 1..3 instances (initial wait, each repetition, cyclic phase, around stop/restart, while a delayed answer is pending); expected responders and the due time of each answer (arrival, or arrival + the delay drawn from the stub, whose requested window is checked) are computed from a reference model; queued and transmitted unicast offers must be exactly one per expected responder, to the requester only, with TTL/options, within the collection timeout.",
        note="Trusted: reference matcher, lifecycle model, wire.py, virtual loop. Where readiness or running state changes within RES of the Find / of the due time both outcomes are accepted.",
    ),
    "C15": dict(
        technique="property-based testing on a deterministic virtual-time event loop: Hypothesis sequences of queue requests placed relative to the collector timers, sequence-equality oracle per destination on independently decoded datagrams",
        text="Uniquely tagged entries are queued for the multicast group and up to 3 peers in generated bursts and at instants relative to the pending collection timers (same iteration before/after the window closes), with running instances contributing their own offers and an announcer stop/start in the middle; per destination the concatenated transmitted entries must equal the queued sequence (exactly once, in order), no datagram mixes destinations, every entry leaves within the timeout, and timeout 0 means one datagram per entry at once.",
        note="Trusted: record-and-forward wrapper of queue_send, wire.py, virtual loop.",
    ),
    "C16": dict(
        technique="property-based testing: reference decision chain against independently decoded replies, Hypothesis over all header field combinations + exhaustive product of type x return code x service/version/method validity x handler kind x channel",
        text="A SimpleService with generated method handlers (returning bytes, None, or rejecting) receives generated messages (all message types and return codes, ids equal/off-by-one/random, unicast/multicast, as objects or as bytes with several messages per datagram); the replies leaving the transport are decoded independently and must equal the reference decision (count, destination, type, return code by first failing check, echoed ids, payload).",
        note="Trusted: reference decision chain written from the statement, wire.py.",
    ),
    "C13": dict(
        technique="model-based property testing on a deterministic virtual-time event loop: Hypothesis filter sets, timing configurations and offer scripts placed relative to the find rounds, reference round schedule (reactive) and live-offer interval model",
        text="1..4 watched filters with wildcards, generated timing configurations and scripts of offers (short and infinite TTL) and stop-offers placed before, within RES of, and after each scheduled round; every FindService message on the wire must fall on a round instant of the reference schedule (start + drawn initial delay, then doubling repetition delays), contain exactly the filters without a matching live offer (simultaneous arrivals/expiries accepted either way) with wildcards preserved and the find TTL, go to the multicast group, number at most 1+repetitions, and stop for good once everything is found.",
        note="Trusted: reference matcher, interval model of live offers, wire.py, virtual loop. Filters are registered before start and never removed.",
    ),
    "C14": dict(
        technique="model-based property testing on a deterministic virtual-time event loop: Hypothesis scripts of subscribe/stop-subscribe/start/stop placed around refresh ticks and inside one iteration, a model server applying the transmitted entries in order",
        text="Scripts over 4 eventgroups (IPv4/IPv6, UDP/TCP local endpoints, two with equal ids) and 3 servers, finite TTL with refresh or infinite without; at every idle point a model server per destination that applied the decoded Subscribe/StopSubscribe entries in transmission order must hold exactly the requested eventgroups while the subscriber runs and none after stop; each Subscribe carries ids, TTL and exactly one endpoint option equal to the local endpoint and goes to the requested server; Subscribes of a pair that stays requested are at most one refresh interval apart.",
        note="Trusted: wire.py, virtual loop, model server. Connection loss is outside this property's quantifier.",
    ),
    "C17": dict(
        technique="model-based property testing on a deterministic virtual-time event loop: Hypothesis scripts of subscribe/unsubscribe/value updates/notify rounds/cyclic waits, set-of-endpoints reference model, independent decoding of every notification",
        text="Scripts over 3 endpoints (IPv4/IPv6), an explicit and a cyclic eventgroup, including repeated subscribes, unsubscribes of non-members and refused subscriptions (0 or 2 endpoints, unknown eventgroup); per step group the multiset of decoded notifications (destination, event, payload) must equal the reference (initial notification per accepted subscribe, explicit rounds to exactly the current subscribers, complete cyclic rounds), with header fields and per-destination session ids checked on every message.",
        note="Trusted: wire.py, virtual loop, reference model. Steps sharing an iteration with a round: issue-time and send-time state both accepted. The cyclic schedule itself is not fixed by the statement.",
    ),
    "C04": dict(
        technique="property-based testing / fault injection on a deterministic virtual-time event loop: two unmodified SD stacks over a simulated network, Hypothesis timing configurations and disturbance scripts (stop/start, crash/restart, loss/duplication/delay windows) placed relative to pending timers, bounded-time convergence oracle; deterministic single-disturbance sweep",
        text="An offering stack and a watching/auto-subscribing stack run on one virtual loop and exchange real datagrams through a simulated network; generated scripts of graceful stop/start, crash/restart (fresh protocol object, so reboot evidence is real) and fault windows (drop/duplicate/delay per datagram) are placed by delay or relative to the pending timers of either stack, on IPv4 or IPv6 addresses. One bound after the last disturbance, and at every idle point of the following bound, the watcher's listener must say 'offered' iff the offerer is offering, and the offerer's listener 'subscribed' iff it offers and the watcher runs. A sweep places each single disturbance at -4RES/-RES/4/+RES/4/+4RES around the first pending timers at several phases.",
        note="Trusted: simulated network (no own-multicast loop-back), virtual loop, the bound formula with its deliberate slack. Infinite-TTL family restricted as the statement says (lossless, crash followed by restart, disturbances one bound apart).",
    ),
}
ALL = ["C%02d" % i for i in range(1, 21)]
NOT_APPLICABLE = {p: "check not built yet in this revision (in progress); the technique applies" for p in ALL if p not in CHECKS}
