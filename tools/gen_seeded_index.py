#!/usr/bin/env python3
"""regenerate seeded/INDEX.md from seeded/*/meta.json (after tools/update_seeded_meta.py <selftest log>)"""
import glob, json, os, re
ROOT = os.path.dirname(os.path.dirname(os.path.abspath(__file__)))
rows = []
for mp in sorted(glob.glob(os.path.join(ROOT, "seeded", "*", "meta.json"))):
    md = json.load(open(mp))
    d = os.path.dirname(mp)
    sid = os.path.basename(d)
    files = sorted(set(os.path.basename(m) for m in re.findall(r"^\+\+\+ b/(\S+)", open(os.path.join(d, "patch.diff")).read(), re.M)))
    cb = md.get("caught_by") or {}
    run_pid = (re.search(r"check (C\d+)", cb.get("check", "")) or [None, md.get("property")])[1]
    rows.append((sid, md.get("property"), run_pid, cb.get("clause") or "-", cb.get("verdict") or "not run", ", ".join(files)))
head = """# Seeded property-breaking changes and the check that catches each

Written by independent sub-agents (property text + scratch worktree only), confirmed before being kept (demo passes on the clean tree, fails with the change, unedited suite still green). `./run selftest` re-applies every one to a scratch copy and expects the quick check to exit 1. Rounds: a/b first, c/d cooperating sites and interleavings, e/f data- or configuration-dependent, g/h and i/j red team (written to evade a randomised checker; DESIGN.md section 9 lists what escaped at first and what was generalised).

| id | written against | run against | caught by clause | verdict | files touched |
|---|---|---|---|---|---|
"""
with open(os.path.join(ROOT, "seeded", "INDEX.md"), "w") as f:
    f.write(head)
    for r in rows:
        f.write("| " + " | ".join(str(x) for x in r) + " |\n")
    killed = sum(1 for r in rows if r[4] == "KILLED")
    f.write(f"\n{killed} of {len(rows)} caught by the quick tier.\n")
print(len(rows), "rows")
