#!/usr/bin/env python3
"""confirm a sub-agent's change myself in a fresh scratch worktree and keep it under seeded/<id>/

usage: tools/import_seeded.py C05 a [C05 b ...]
for each: worktree of /repo HEAD under /tmp, demo on clean tree (must pass), apply patch, demo (must fail),
full test suite (must pass), remove worktree; then copy patch.diff, demo.py, notes.md and write meta.json
"""
import json, os, shutil, subprocess, sys, tempfile

def sh(cmd, cwd=None, env=None, timeout=900):
    p = subprocess.run(cmd, shell=True, cwd=cwd, env=env, capture_output=True, text=True, timeout=timeout)
    return p.returncode, (p.stdout + p.stderr)

def one(pid, x):
    src = f"{BASE}/{pid}/out/{x}"
    sid = f"{pid}-{x}"
    wt = tempfile.mkdtemp(prefix=f"confirm-{sid}-")
    os.rmdir(wt)
    ran = []
    try:
        rc, out = sh(f"git -C /repo worktree add -q --detach {wt} HEAD")
        assert rc == 0, out
        env = dict(os.environ, PYTHONPATH=f"{wt}/src")
        demo = f"/venv/bin/python {src}/demo.py"
        # agents' demos reference /tmp/seed/<pid>/src via PYTHONPATH only; run from the confirm worktree
        rc_clean, o1 = sh(demo, cwd=wt, env=env)
        ran.append(f"demo on clean tree: exit {rc_clean}")
        rc, out = sh(f"git apply {src}/patch.diff", cwd=wt)
        assert rc == 0, "patch does not apply: " + out
        rc_mut, o2 = sh(demo, cwd=wt, env=env)
        ran.append(f"demo with change: exit {rc_mut}")
        rc_t, o3 = sh("/venv/bin/python -m pytest -q -p no:cacheprovider -n 4 tests", cwd=wt)
        tail = o3.strip().splitlines()[-1] if o3.strip() else ""
        if rc_t != 0:
            rc_t, o3 = sh("/venv/bin/python -m pytest -q -p no:cacheprovider tests", cwd=wt)
            tail = o3.strip().splitlines()[-1] if o3.strip() else ""
        ran.append(f"test suite with change: exit {rc_t}: {tail}")
        okay = rc_clean == 0 and rc_mut != 0 and rc_t == 0
    finally:
        sh(f"git -C /repo worktree remove --force {wt}")
        shutil.rmtree(wt, ignore_errors=True)
    print(sid, "CONFIRMED" if okay else "REJECTED", ran)
    if okay:
        dst = f"/verif/seeded/{sid}"
        os.makedirs(dst, exist_ok=True)
        for f in ("patch.diff", "demo.py", "notes.md"):
            if os.path.exists(f"{src}/{f}"):
                shutil.copy(f"{src}/{f}", f"{dst}/{f}")
        notes = open(f"{src}/notes.md").read() if os.path.exists(f"{src}/notes.md") else ""
        json.dump({"id": sid, "property": pid, "written_by": "independent sub-agent (given only the property text and a scratch worktree)",
                   "needs_to_manifest": "see notes.md", "confirmed_by_me": ran, "caught_by": None},
                  open(f"{dst}/meta.json", "w"), indent=1)
    return okay

BASE = os.environ.get("SEED_BASE", "/tmp/seed")

if __name__ == "__main__":
    a = sys.argv[1:]
    for i in range(0, len(a), 2):
        try:
            one(a[i], a[i + 1])
        except Exception as e:
            print(a[i], a[i + 1], "ERROR", e)
