#!/usr/bin/env python3
"""writes MANIFEST.json from the table below (one place to keep it valid)"""
import json, os, sys
ROOT = os.path.dirname(os.path.dirname(os.path.abspath(__file__)))
sys.path.insert(0, ROOT)
from tools.manifest_data import CHECKS, NOT_APPLICABLE  # noqa: E402

checks = []
for pid, d in sorted(CHECKS.items()):
    checks.append({
        "property_id": pid,
        "quick_cmd": f"./run check {pid} --tier quick",
        "thorough_cmd": f"./run check {pid} --tier thorough",
        "evidence_file": f"/verif/evidence/{pid}.json",
        "replay_cmd_template": "./run replay {path}",
        "engine": "pbt-engine",
        "level_claimed": {"category": "exploration", "text": d["text"], "design_ref": f"DESIGN.md section 3, {pid}"},
        "level_note": d["note"],
        "technique": d["technique"],
    })
man = {
    "version": 1,
    "setup_cmd": "./setup.sh",
    "hooks": {
        "guard": "PYSOMEIP_VERIF",
        "enable": "no source hooks exist: the checks import /repo/src directly (VERIF_REPO overrides the location for the mutant self-test) and observe through injected transports, listeners, the event loop and the module attribute someip.sd.random",
        "baseline_off_cmd": "cd /repo && /venv/bin/python -m pytest -ra -q -p no:cacheprovider --timeout=900 --continue-on-collection-errors",
        "source_commits": [],
        "add_only": True,
    },
    "engines": [{
        "name": "pbt-engine", "path": "harness/engine.py",
        "serves_properties": sorted(CHECKS),
        "kind_free_text": "property-based testing: Hypothesis generators + sharded exhaustive enumeration of small domains, pure verdict functions over plain-data cases executed on a deterministic virtual-time asyncio loop, independent wire codec and reference models as oracles, collect-then-minimise shrinking, replay files",
    }],
    "checks": checks,
    "not_applicable": [{"property_id": k, "reason": v} for k, v in sorted(NOT_APPLICABLE.items())],
    "notes": "Repairs of genuine defects are 'fix:' commits in /repo, listed in known_findings.json (status fixed, with regression replays under replays/regress/). Open findings are listed there with status open. ./run selftest applies mutants/ and seeded/ changes to scratch copies and expects every check to turn red.",
}
json.dump(man, open(os.path.join(ROOT, "MANIFEST.json"), "w"), indent=1)
print("MANIFEST.json:", len(checks), "checks,", len(man["not_applicable"]), "not applicable")
